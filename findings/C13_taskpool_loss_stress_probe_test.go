package control

import (
	"net/netip"
	"runtime"
	"sync"
	"sync/atomic"
	"testing"
	"time"
)

// Stress probe: packets arriving for a flow exactly when the flow's idle timer is collecting the
// queue, on an oversubscribed machine. Every emitted task must run.
func TestProbe_C13_TaskLostWhenIdleCollectionRacesWithEmit(t *testing.T) {
	old := UdpTaskPoolAgingTime
	UdpTaskPoolAgingTime = 2 * time.Microsecond
	defer func() { UdpTaskPoolAgingTime = old }()
	runtime.GOMAXPROCS(64)
	stop := make(chan struct{})
	for i := 0; i < 48; i++ { // CPU hogs so that goroutines get descheduled at arbitrary points
		go func() {
			x := 0
			for {
				select {
				case <-stop:
					return
				default:
					x++
				}
			}
		}()
	}
	p := NewUdpTaskPool()
	var emitted, ran atomic.Int64
	var wg sync.WaitGroup
	deadline := time.Now().Add(40 * time.Second)
	for w := 0; w < 4; w++ {
		wg.Add(1)
		go func(w int) {
			defer wg.Done()
			key := UdpFlowKey{Src: netip.MustParseAddrPort("10.0.0.1:1000"), Dst: netip.AddrPortFrom(netip.MustParseAddr("8.8.8.8"), uint16(53+w))}
			for round := 0; time.Now().Before(deadline); round++ {
				emitted.Add(1)
				p.EmitTask(key, func() { ran.Add(1) })
				spin := time.Now()
				for time.Since(spin) < UdpTaskPoolAgingTime+time.Duration(round%5)*time.Microsecond {
				}
			}
		}(w)
	}
	wg.Wait()
	close(stop)
	time.Sleep(200 * time.Millisecond)
	if d := emitted.Load() - ran.Load(); d != 0 {
		t.Fatalf("%d of %d accepted tasks were never executed", d, emitted.Load())
	}
	t.Logf("%d tasks, none lost", emitted.Load())
}
