package control

import (
	"context"
	"io"
	"net"
	"testing"
	"time"
)

// A server that ends its response by closing the connection (close-delimited body): the client must
// see end of stream promptly. With sniffing enabled dae's client-side connection is wrapped
// (prefixedConn / ConnSniffer); the end of the upstream's stream must still be passed on.
func TestProbe_C05_UpstreamEOFReachesClientThroughWrappedConn(t *testing.T) {
	pair := func() (a, b net.Conn) {
		ln, err := net.Listen("tcp", "127.0.0.1:0")
		if err != nil {
			t.Skip(err)
		}
		defer ln.Close()
		ch := make(chan net.Conn, 1)
		go func() { c, _ := ln.Accept(); ch <- c }()
		a, err = net.Dial("tcp", ln.Addr().String())
		if err != nil {
			t.Fatal(err)
		}
		return a, <-ch
	}
	for _, wrapped := range []bool{false, true} {
		client, lConn := pair()
		rConn, server := pair()
		go func() { // server: read the request, answer, close
			buf := make([]byte, 16)
			_, _ = server.Read(buf)
			_, _ = server.Write([]byte("response"))
			_ = server.Close()
		}()
		var left net.Conn = lConn
		if wrapped {
			left = &prefixedConn{Conn: lConn, prefix: nil}
		}
		go func() {
			_ = RelayTCPContextWithRecords(context.Background(), left, rConn, nil, nil)
			_ = lConn.Close()
			_ = rConn.Close()
		}()
		_, _ = client.Write([]byte("request"))
		start := time.Now()
		_ = client.SetReadDeadline(time.Now().Add(15 * time.Second))
		body, err := io.ReadAll(client) // the client learns the body is complete from end of stream
		took := time.Since(start)
		_ = client.Close()
		t.Logf("wrapped=%v: body=%q err=%v after %v", wrapped, body, err, took.Round(time.Millisecond))
		if string(body) != "response" || took > 3*time.Second {
			t.Errorf("wrapped=%v: end of the upstream's stream reached the client only after %v", wrapped, took.Round(time.Millisecond))
		}
	}
}
