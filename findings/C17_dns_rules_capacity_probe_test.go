package dns

import (
	"fmt"
	"testing"

	"github.com/daeuniverse/dae/common/consts"
	"github.com/daeuniverse/dae/config"
	"github.com/daeuniverse/dae/pkg/config_parser"
	"github.com/sirupsen/logrus"
)

// A dns { routing { request { ... } } } section with more rules than the match-set limit must be
// rejected with an error, not crash dae at start-up / reload.
func TestProbe_C17_TooManyDnsRequestRules(t *testing.T) {
	n := consts.MaxMatchSetLen + 6
	var rules []*config_parser.RoutingRule
	for i := 0; i < n; i++ {
		up := "alidns"
		if i%2 == 1 {
			up = "googledns" // alternate upstreams so neighbouring rules are not merged
		}
		rules = append(rules, &config_parser.RoutingRule{
			AndFunctions: []*config_parser.Function{{
				Name:   consts.Function_QName,
				Params: []*config_parser.Param{{Key: "full", Val: fmt.Sprintf("h%d.example.org", i)}},
			}},
			Outbound: config_parser.Function{Name: up},
		})
	}
	defer func() {
		if r := recover(); r != nil {
			t.Fatalf("crashed instead of reporting an error: %v", r)
		}
	}()
	b, err := NewRequestMatcherBuilder(logrus.New(), rules, map[string]uint8{"alidns": 0, "googledns": 1}, config.FunctionOrString("alidns"))
	if err != nil {
		t.Logf("builder rejected: %v", err)
		return
	}
	if _, err = b.Build(); err != nil {
		t.Logf("Build rejected: %v", err)
		return
	}
	t.Fatalf("a request routing of %d rules (limit %d) was accepted", n, consts.MaxMatchSetLen)
}
