package domain_matcher

import (
	"testing"

	"github.com/daeuniverse/dae/common/consts"
	"github.com/sirupsen/logrus"
)

// Names reach the matcher from DNS questions and sniffed TLS/HTTP hosts. '^' is a legal byte in a
// wire-format label; the matcher uses it (and '$') internally to mark the start and end of a name.
func TestProbeC07NameWithMarkerBytesDoesNotPassForAnotherName(t *testing.T) {
	m := NewAhocorasickSlimtrie(logrus.New(), 64)
	m.AddSet(0, []string{"example.com"}, consts.RoutingDomainKey_Full)
	m.AddSet(1, []string{"example.org"}, consts.RoutingDomainKey_Suffix)
	if err := m.Build(); err != nil {
		t.Fatal(err)
	}
	for _, name := range []string{"x^example.com.", "evil^example.org", "example.com$"} {
		if bm := m.MatchDomainBitmap(name); bm[0] != 0 {
			t.Errorf("%q matches rule bitmap %b although it is neither example.com nor under example.org", name, bm[0])
		}
	}
	if bm := m.MatchDomainBitmap("^.example.org"); bm[0] != 1<<1 {
		t.Errorf("a sub-name of example.org with an odd label must still match the suffix rule, got %b", bm[0])
	}
}
