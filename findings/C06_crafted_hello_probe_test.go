package sniffing

import (
	"bytes"
	"testing"
	"time"
)

// A first segment that fills the sniffer's receive buffer exactly, carrying a TLS record whose
// last extension is a server_name extension of length 1.
func TestProbeCraftedHelloFillsBuffer(t *testing.T) {
	for _, total := range []int{4096} {
		rec := make([]byte, total)
		rec[0], rec[1], rec[2] = 22, 3, 1
		l := total - 5
		rec[3], rec[4] = byte(l>>8), byte(l)
		h := rec[5:]
		h[0] = 1
		h[4], h[5] = 3, 3
		// sid len 0 at 38, cipher len 0 at 39..40, compression len 0 at 41
		extLen := l - 44
		h[42], h[43] = byte(extLen>>8), byte(extLen)
		ext := h[44:]
		big := extLen - 4 - 5
		ext[0], ext[1] = 0xff, 0xff
		ext[2], ext[3] = byte(big>>8), byte(big)
		last := ext[4+big:]
		last[0], last[1], last[2], last[3], last[4] = 0, 0, 0, 1, 0
		s := NewStreamSniffer(bytes.NewReader(rec), time.Second)
		name, err := s.SniffTcp()
		t.Logf("total=%d name=%q err=%v", total, name, err)
	}
}
