package dialer

import (
	"testing"
	"time"

	"github.com/daeuniverse/dae/common/consts"
)

// A node kept as a last resort by a large latency offset (add_latency: 1h) is alive and is the only
// alive node: a min-latency group must still select it.
func TestProbeC15AliveNodeWithHourOffsetIsSelectable(t *testing.T) {
	networkType := newTestNetworkType()
	a := newNamedTestDialer(t, "a")
	b := newNamedTestDialer(t, "b")
	alive := false
	set := NewAliveDialerSet(a.Log, "g", networkType, 100*time.Millisecond, consts.DialerSelectionPolicy_MinLastLatency,
		[]*Dialer{a, b}, []*Annotation{{AddLatency: time.Hour}, {}}, func(v bool) { alive = v }, false)
	a.MustGetLatencies10(networkType).AppendLatency(50 * time.Millisecond)
	set.NotifyLatencyChange(a, true)
	got, _ := set.GetMinLatency(nil)
	if got != a {
		t.Fatalf("the only alive node (offset 1h) is not selected: got %p, group told alive=%v", got, alive)
	}
	if !alive {
		t.Fatalf("the group was not told that it has an alive node")
	}
}
