package control

import (
	"bytes"
	"context"
	"io"
	"net"
	"testing"
	"time"

	"github.com/daeuniverse/dae/component/sniffing"
)

// A client whose ClientHello is split over two TCP segments, the second arriving after the sniffing
// timeout. Sniffing gives up (a sniffing error the TCP handler deliberately ignores) and the relay
// proceeds with the ConnSniffer as its client side: the server must still receive the whole stream.
func TestProbe_C06_RelayAfterSniffTimeoutDeliversWholeStream(t *testing.T) {
	pair := func() (a, b net.Conn) {
		ln, err := net.Listen("tcp", "127.0.0.1:0")
		if err != nil {
			t.Skip(err)
		}
		defer ln.Close()
		ch := make(chan net.Conn, 1)
		go func() { c, _ := ln.Accept(); ch <- c }()
		a, err = net.Dial("tcp", ln.Addr().String())
		if err != nil {
			t.Fatal(err)
		}
		return a, <-ch
	}
	client, lConn := pair()   // client -> dae
	rConn, server := pair()   // dae -> server
	defer client.Close()
	defer server.Close()

	part1 := []byte{22, 3, 1, 0x00, 0x40, 1, 0, 0, 0x3c, 3, 3} // record header: 64 bytes follow; only 6 sent now
	part2 := bytes.Repeat([]byte{0xab}, 58)
	part2 = append(part2, []byte("REST-OF-STREAM")...)
	go func() {
		_, _ = client.Write(part1)
		time.Sleep(300 * time.Millisecond) // later than the sniffing timeout
		_, _ = client.Write(part2)
		_ = client.(*net.TCPConn).CloseWrite()
	}()

	sniffer := sniffing.NewConnSniffer(lConn, 100*time.Millisecond)
	defer sniffer.Close()
	_, err := sniffer.SniffTcp()
	if err == nil || !sniffing.IsSniffingError(err) {
		t.Fatalf("expected a sniffing error (timeout), got %v", err)
	}
	t.Logf("sniff: %v", err)

	got := make(chan []byte, 1)
	go func() { b, _ := io.ReadAll(server); got <- b }()
	ctx, cancel := context.WithTimeout(context.Background(), 3*time.Second)
	defer cancel()
	relayErr := RelayTCPContextWithRecords(ctx, sniffer, rConn, func(int64) {}, func(int64) {})
	t.Logf("relay: %v", relayErr)
	_ = rConn.Close()
	want := append(append([]byte{}, part1...), part2...)
	select {
	case b := <-got:
		if !bytes.Equal(b, want) {
			t.Fatalf("server received %d bytes, client sent %d; relay error: %v", len(b), len(want), relayErr)
		}
	case <-time.After(4 * time.Second):
		t.Fatal("server side never finished")
	}
}
