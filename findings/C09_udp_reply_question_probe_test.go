package control

import (
	"context"
	"testing"
	"time"

	"github.com/daeuniverse/outbound/netproxy"
	dnsmessage "github.com/miekg/dns"
)

type probeUpConn struct {
	datagrams [][]byte
	next      int
}

type probeTimeout struct{}

func (probeTimeout) Error() string   { return "i/o timeout" }
func (probeTimeout) Timeout() bool   { return true }
func (probeTimeout) Temporary() bool { return true }

func (c *probeUpConn) Read(p []byte) (int, error) {
	if c.next >= len(c.datagrams) {
		return 0, probeTimeout{}
	}
	n := copy(p, c.datagrams[c.next])
	c.next++
	return n, nil
}
func (c *probeUpConn) Write(p []byte) (int, error)        { return len(p), nil }
func (c *probeUpConn) Close() error                       { return nil }
func (c *probeUpConn) SetDeadline(t time.Time) error      { return nil }
func (c *probeUpConn) SetReadDeadline(t time.Time) error  { return nil }
func (c *probeUpConn) SetWriteDeadline(t time.Time) error { return nil }

func probeAnswer(t *testing.T, id uint16, name string, ip byte) []byte {
	m := &dnsmessage.Msg{
		MsgHdr:   dnsmessage.MsgHdr{Id: id, Response: true},
		Question: []dnsmessage.Question{{Name: name, Qtype: dnsmessage.TypeA, Qclass: dnsmessage.ClassINET}},
		Answer: []dnsmessage.RR{&dnsmessage.A{
			Hdr: dnsmessage.RR_Header{Name: name, Rrtype: dnsmessage.TypeA, Class: dnsmessage.ClassINET, Ttl: 60},
			A:   []byte{192, 0, 2, ip},
		}},
	}
	b, err := m.Pack()
	if err != nil {
		t.Fatal(err)
	}
	return b
}

// Client A asked a.example. with ID 7 over a pooled upstream socket and gave up; the late answer is
// still in the socket when client B's query for b.example., which happens to use ID 7 as well (the
// ID on the wire is the client's own), is sent over the same socket.
func TestProbeC09LateReplyToAnotherQuestionIsNotTheAnswer(t *testing.T) {
	conn := &probeUpConn{datagrams: [][]byte{probeAnswer(t, 7, "a.example.", 1), probeAnswer(t, 7, "b.example.", 2)}}
	d := &DoUDP{profile: UdpLifecycleProfile{Kind: UdpLifecycleKindDnsTransactional}}
	d.pool = newUdpConnPool(4, 4, func(ctx context.Context) (netproxy.Conn, error) { return conn, nil })
	q := &dnsmessage.Msg{MsgHdr: dnsmessage.MsgHdr{Id: 7, RecursionDesired: true},
		Question: []dnsmessage.Question{{Name: "b.example.", Qtype: dnsmessage.TypeA, Qclass: dnsmessage.ClassINET}}}
	data, err := q.Pack()
	if err != nil {
		t.Fatal(err)
	}
	msg, err := d.ForwardDNS(context.Background(), data)
	if err != nil {
		t.Fatalf("no answer: %v", err)
	}
	if len(msg.Question) != 1 || msg.Question[0].Name != "b.example." {
		t.Fatalf("the query for b.example. was answered with the reply to %q (%v)", msg.Question[0].Name, msg.Answer)
	}
}
