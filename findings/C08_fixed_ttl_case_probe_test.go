package control

import (
	"testing"
	"time"

	dnsmessage "github.com/miekg/dns"
	"github.com/sirupsen/logrus"
	"github.com/stretchr/testify/require"
)

// fixed_domain_ttl names a domain; DNS names compare case-insensitively and clients that use 0x20
// case randomisation ask for "DdNs.ExAmple.Org.". The answer to such a query must get the fixed TTL
// of the name like the answer to the lower-case spelling does (0 = never cached).
func TestProbeC08FixedTtlAppliesWhateverTheQueryCase(t *testing.T) {
	newCache := func(fqdn string, answers, ns, extra []dnsmessage.RR, deadline, originalDeadline time.Time) (*DnsCache, error) {
		return &DnsCache{Answer: answers, NS: ns, Extra: extra, Deadline: deadline, OriginalDeadline: originalDeadline}, nil
	}
	ctrl, err := NewDnsController(nil, &DnsControllerOption{
		Log:            logrus.New(),
		NewCache:       newCache,
		FixedDomainTtl: map[string]int{"ddns.example.org": 0},
	})
	require.NoError(t, err)
	defer func() { require.NoError(t, ctrl.Close()) }()

	respFor := func(name string) *dnsmessage.Msg {
		return &dnsmessage.Msg{
			MsgHdr:   dnsmessage.MsgHdr{Response: true, Rcode: dnsmessage.RcodeSuccess},
			Question: []dnsmessage.Question{{Name: name, Qtype: dnsmessage.TypeA, Qclass: dnsmessage.ClassINET}},
			Answer: []dnsmessage.RR{&dnsmessage.A{
				Hdr: dnsmessage.RR_Header{Name: name, Rrtype: dnsmessage.TypeA, Class: dnsmessage.ClassINET, Ttl: 300},
				A:   []byte{192, 0, 2, 1},
			}},
		}
	}
	lookup := func(name string) []byte {
		msg := &dnsmessage.Msg{Question: []dnsmessage.Question{{Name: name, Qtype: dnsmessage.TypeA, Qclass: dnsmessage.ClassINET}}}
		resp, _ := ctrl.LookupDnsRespCache_(msg, ctrl.cacheKey(name, dnsmessage.TypeA), false)
		return resp
	}

	// control: the lower-case spelling is not cached
	require.NoError(t, ctrl.NormalizeAndCacheDnsResp_(respFor("ddns.example.org."), ctrl.cacheKey("ddns.example.org.", dnsmessage.TypeA)))
	require.Nil(t, lookup("ddns.example.org."), "lower-case query: fixed ttl 0 means not cached")

	// the same name asked in mixed case
	mixed := "DdNs.ExAmple.Org."
	require.NoError(t, ctrl.NormalizeAndCacheDnsResp_(respFor(mixed), ctrl.cacheKey(mixed, dnsmessage.TypeA)))
	require.Nil(t, lookup("ddns.example.org."), "answer to the mixed-case query is served from the cache for the upstream TTL, ignoring fixed_domain_ttl")
}
