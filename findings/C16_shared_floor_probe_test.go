package control

import (
	"io"
	"testing"
	"time"

	"github.com/daeuniverse/dae/common/consts"
	"github.com/daeuniverse/dae/component/outbound"
	"github.com/daeuniverse/dae/component/outbound/dialer"
	D "github.com/daeuniverse/outbound/dialer"
	"github.com/daeuniverse/outbound/protocol/direct"
	"github.com/sirupsen/logrus"
)

// Groups A={X,Z} and B={X,Y} share node X. In the old generation X and Z are dead for tcp4, Y is
// alive. After the reload hand-over every non-empty group must have a selectable tcp4 node.
func TestProbeC16ReloadFloorSurvivesSharedNodes(t *testing.T) {
	logger := logrus.New()
	logger.SetOutput(io.Discard)
	opt := &dialer.GlobalOption{Log: logger, CheckInterval: 30 * time.Second, CheckTolerance: time.Second}
	mk := func(name string) *dialer.Dialer {
		return dialer.NewDialer(direct.SymmetricDirect, opt, dialer.InstanceOption{}, &dialer.Property{Property: D.Property{Name: name}})
	}
	grp := func(name string, ds ...*dialer.Dialer) *outbound.DialerGroup {
		annos := make([]*dialer.Annotation, len(ds))
		for i := range annos {
			annos[i] = &dialer.Annotation{}
		}
		return outbound.NewDialerGroup(opt, name, ds, annos, outbound.DialerSelectionPolicy{Policy: consts.DialerSelectionPolicy_MinLastLatency}, func(bool, *dialer.NetworkType, bool) {})
	}
	oldX, oldY, oldZ := mk("X"), mk("Y"), mk("Z")
	newX, newY, newZ := mk("X"), mk("Y"), mk("Z")
	oldA, oldB := grp("A", oldX, oldZ), grp("B", oldX, oldY)
	newA, newB := grp("A", newX, newZ), grp("B", newX, newY)
	tcp4 := &dialer.NetworkType{L4Proto: consts.L4ProtoStr_TCP, IpVersion: consts.IpVersionStr_4}
	for _, d := range []*dialer.Dialer{oldX, oldZ} {
		d.ReportUnavailableForced(tcp4, nil)
		d.NotifyHealthCheckResult(tcp4, false, false)
	}
	oldCP := &ControlPlane{controlPlaneGenerationState: controlPlaneGenerationState{outbounds: []*outbound.DialerGroup{oldA, oldB}}}
	newCP := &ControlPlane{controlPlaneGenerationState: controlPlaneGenerationState{outbounds: []*outbound.DialerGroup{newA, newB}}}
	newCP.InheritDialerHealthFrom(oldCP)
	for _, g := range []*outbound.DialerGroup{newA, newB} {
		if d, _, err := g.Select(tcp4, true); err != nil || d == nil {
			t.Errorf("group %s has no selectable tcp4 node after the reload hand-over: %v", g.Name, err)
		}
	}
}
