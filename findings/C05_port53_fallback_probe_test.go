package control

import (
	"bufio"
	"bytes"
	"context"
	"io"
	"net"
	"net/netip"
	"testing"
	"time"

	dnsmessage "github.com/miekg/dns"
)

type c05Pair struct {
	client, lConn, rConn, upstream net.Conn
}

func c05Sockets(t *testing.T) *c05Pair {
	ln, err := net.Listen("tcp", "127.0.0.1:0")
	if err != nil {
		t.Fatal(err)
	}
	defer ln.Close()
	upLn, err := net.Listen("tcp", "127.0.0.1:0")
	if err != nil {
		t.Fatal(err)
	}
	defer upLn.Close()
	p := &c05Pair{}
	if p.client, err = net.Dial("tcp", ln.Addr().String()); err != nil {
		t.Fatal(err)
	}
	if p.lConn, err = ln.Accept(); err != nil {
		t.Fatal(err)
	}
	if p.rConn, err = net.Dial("tcp", upLn.Addr().String()); err != nil {
		t.Fatal(err)
	}
	if p.upstream, err = upLn.Accept(); err != nil {
		t.Fatal(err)
	}
	return p
}

// the port-53 sequence of handleConn: detection, then the plain relay over what detection left
func c05Port53(t *testing.T, p *c05Pair) chan error {
	bufReader := bufio.NewReader(p.lConn)
	c := &ControlPlane{}
	handled, _ := c.handleTCPDnsFastPath(context.Background(), p.lConn, bufReader,
		netip.MustParseAddrPort("10.0.0.1:4000"), netip.MustParseAddrPort("1.1.1.1:53"), &bpfRoutingResult{})
	if handled {
		t.Fatalf("stream was taken by the DNS fast path")
	}
	wrapped := &bufioConn{Conn: p.lConn, reader: bufReader}
	done := make(chan error, 1)
	go func() { done <- RelayTCP(wrapped, p.rConn) }()
	return done
}

// A client on port 53 whose first frame is a well-formed DNS *response* (not a query): detection
// declines the stream, and the relay must still deliver every byte.
func TestProbeC05Port53ResponseFrameKept(t *testing.T) {
	p := c05Sockets(t)
	m := new(dnsmessage.Msg)
	m.SetQuestion("example.com.", dnsmessage.TypeA)
	m.Response = true
	body, err := m.Pack()
	if err != nil {
		t.Fatal(err)
	}
	payload := append([]byte{byte(len(body) >> 8), byte(len(body))}, body...)
	payload = append(payload, []byte("tail-of-the-client-stream")...)
	if _, err := p.client.Write(payload); err != nil {
		t.Fatal(err)
	}
	_ = p.client.(*net.TCPConn).CloseWrite()
	done := c05Port53(t, p)
	_ = p.upstream.SetReadDeadline(time.Now().Add(8 * time.Second))
	got, _ := io.ReadAll(p.upstream)
	_ = p.upstream.Close()
	<-done
	if !bytes.Equal(got, payload) {
		t.Fatalf("upstream received %d bytes, want %d: first frame of %d bytes lost=%v", len(got), len(payload), len(body)+2, bytes.Equal(got, payload[len(body)+2:]))
	}
}

// A client on port 53 speaking another protocol, still healthy after the 5 s DNS detection window:
// bytes it sends later must still reach the upstream.
func TestProbeC05Port53DeadlineNotLeftBehind(t *testing.T) {
	p := c05Sockets(t)
	first := []byte("\x00\x05hello-not-dns")
	if _, err := p.client.Write(first); err != nil {
		t.Fatal(err)
	}
	done := c05Port53(t, p)
	buf := make([]byte, 64)
	_ = p.upstream.SetReadDeadline(time.Now().Add(3 * time.Second))
	n, err := io.ReadFull(p.upstream, buf[:len(first)])
	if err != nil || !bytes.Equal(buf[:n], first) {
		t.Fatalf("first bytes: %q %v", buf[:n], err)
	}
	time.Sleep(TCPDNSFirstReadTimeout + 500*time.Millisecond)
	later := []byte("later-bytes")
	_, _ = p.client.Write(later)
	_ = p.upstream.SetReadDeadline(time.Now().Add(3 * time.Second))
	n, err = io.ReadFull(p.upstream, buf[:len(later)])
	if err != nil || !bytes.Equal(buf[:n], later) {
		t.Fatalf("bytes sent %v after accept did not arrive: got %q err=%v", TCPDNSFirstReadTimeout+500*time.Millisecond, buf[:n], err)
	}
	_ = p.client.Close()
	_ = p.upstream.Close()
	<-done
}
