package control

import (
	"net/netip"
	"sync"
	"testing"
	"time"
)

// The per-flow worker looks at the channel, finds it empty, and then waits for enqueueMu to look at
// the overflow FIFO. If a burst of more than UdpTaskQueueLength packets is enqueued in that gap,
// the oldest of them sit in the channel and the newest in overflow - and the worker, once it gets
// the lock, must still run the channel's tasks first.
func TestProbe_C13_BurstWhileWorkerWaitsForOverflowLock(t *testing.T) {
	p := NewUdpTaskPool()
	key := UdpFlowKey{Src: netip.MustParseAddrPort("10.0.0.1:1000"), Dst: netip.MustParseAddrPort("8.8.8.8:53")}
	var mu sync.Mutex
	var ran []int
	task := func(id int) UdpTask { return func() { mu.Lock(); ran = append(ran, id); mu.Unlock() } }

	q := p.acquireQueue(key) // creates the queue and starts its worker
	q.enqueueMu.Lock()       // what an enqueue in progress holds
	q.ch <- task(0)          // a task the worker picks up ...
	q.refs.Add(-1)
	time.Sleep(100 * time.Millisecond) // ... runs, then finds the channel empty and waits for enqueueMu

	// the state that UdpTaskQueueLength+1 EmitTask calls leave behind, produced while the lock is held
	for i := 1; i <= UdpTaskQueueLength; i++ {
		q.ch <- task(i)
	}
	q.overflowMode = true
	q.overflow = append(q.overflow, task(UdpTaskQueueLength+1))
	q.overflowLen.Store(1)
	q.enqueueMu.Unlock()

	time.Sleep(300 * time.Millisecond)
	mu.Lock()
	defer mu.Unlock()
	if len(ran) != UdpTaskQueueLength+2 {
		t.Fatalf("ran %d tasks, want %d", len(ran), UdpTaskQueueLength+2)
	}
	for i, id := range ran {
		if id != i {
			t.Fatalf("task %d ran at position %d: the flow's packets were handled out of order (%v ...)", id, i, ran[:4])
		}
	}
}
