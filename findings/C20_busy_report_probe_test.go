package cmd

import (
	"sync"
	"testing"
	"time"

	"github.com/daeuniverse/dae/common/consts"
)

// A reload signal is refused (another reload is pending) at the very moment that reload finishes:
// the refusal's busy report lands in the progress file after the finishing reload has already
// looked for a busy report to clear. Nothing is in progress any more, yet the file says busy -
// and `dae reload` does not send a signal while the file says anything but done or error.
func TestProbe_C20_BusyReportWrittenAfterReloadSettled(t *testing.T) {
	var mu sync.Mutex
	code, msg := byte(consts.ReloadDone), ""
	busyWriteStarted := make(chan struct{})
	letBusyWriteFinish := make(chan struct{})
	oldSet, oldGet := setRunSignalProgress, getRunSignalProgress
	defer func() { setRunSignalProgress, getRunSignalProgress = oldSet, oldGet }()
	setRunSignalProgress = func(c byte, content string) error {
		if c == consts.ReloadBusy {
			close(busyWriteStarted)
			<-letBusyWriteFinish // the file write is slow; the worker finishes meanwhile
		}
		mu.Lock()
		code, msg = c, content
		mu.Unlock()
		return nil
	}
	getRunSignalProgress = func() (byte, string, error) {
		mu.Lock()
		defer mu.Unlock()
		return code, msg, nil
	}
	m := newReloadManager(make(chan reloadRequest, 1), make(chan struct{}, 1), nil)
	if !m.queueReloadRequest(nil, reloadRequest{}) {
		t.Fatal("first request refused")
	}
	<-m.reloadReqs // the worker takes it
	m.reloadActive.Store(true)
	refused := make(chan bool, 1)
	go func() { refused <- !m.queueReloadRequest(nil, reloadRequest{}) }() // a second signal meanwhile
	<-busyWriteStarted
	// the worker finishes the first reload (failure exit of the worker loop)
	_ = setRunSignalProgress(consts.ReloadError, "load failed")
	m.reloadActive.Store(false)
	clearReloadPending(&m.reloadPending)
	close(letBusyWriteFinish)
	if wasRefused := <-refused; !wasRefused {
		// taken after all (nothing was in progress any more): let the worker finish it
		<-m.reloadReqs
		_ = setRunSignalProgress(consts.ReloadDone, "OK")
		clearReloadPending(&m.reloadPending)
	}
	time.Sleep(10 * time.Millisecond)
	c, content, _ := getRunSignalProgress()
	if m.reloadPending.Load() || m.reloadActive.Load() {
		t.Fatal("manager not idle")
	}
	if c != consts.ReloadDone && c != consts.ReloadError {
		t.Fatalf("dae is idle but the progress file says %q %q: `dae reload` will refuse to signal from now on", c, content)
	}
}
