//go:build verif

package cmd

import (
	"context"
	"strconv"
	"time"

	"github.com/daeuniverse/dae/common/consts"
	"github.com/sirupsen/logrus"
	vs "github.com/daeuniverse/dae/zz_vs"
)

// c20World wires the reload manager's real entry points to observable counters: the suppression
// hooks count begin/end, the progress file is a variable.
type c20World struct {
	m            *reloadManager
	begins, ends int
	code         byte
	msg          string
	accepted     int
	refused      int
	processing   int // requests the worker is processing right now
	retiring     int // retirements of an old generation still running
	maxOpen      int
	busyWrites   int
}

func c20Setup() *c20World {
	w := &c20World{code: consts.ReloadDone}
	beginReloadProxyFailureSuppression = func() { w.begins++ }
	endReloadProxyFailureSuppression = func() { w.ends++ }
	setRunSignalProgress = func(code byte, content string) error {
		if code == consts.ReloadBusy {
			w.busyWrites++
		}
		w.code, w.msg = code, content
		return nil
	}
	getRunSignalProgress = func() (byte, string, error) { return w.code, w.msg, nil }
	w.m = newReloadManager(make(chan reloadRequest, 1), make(chan struct{}, 1), nil)
	return w
}

// open is the number of accepted requests whose muting of failure reports has not been lifted yet.
func (w *c20World) open() int { return w.begins - w.ends }

// signal is what the main loop does on SIGUSR1 / SIGUSR2.
func (w *c20World) signal(suspend bool) {
	openBefore, queuedBefore, busyBefore := w.open(), len(w.m.reloadReqs), w.busyWrites
	ok := w.m.queueReloadRequest(nil, reloadRequest{isSuspend: suspend})
	if ok {
		w.accepted++
		// (the worker counts a request as processed just before it calls the manager's exit, and a
		// retirement as finished just before it reports completion - so both are exact here)
		vs.Assert("a request is accepted only when no reload, suspend or retirement is in progress", w.processing == 0 && w.retiring == 0)
	} else {
		w.refused++
		// (the worker's own status writes may follow at once, so the report is counted, not re-read)
		vs.Assert("a refused request is reported as busy", w.busyWrites > busyBefore)
		vs.Assert("a refused request does not touch the queue", len(w.m.reloadReqs) == queuedBefore || len(w.m.reloadReqs) == queuedBefore-1)
		vs.Assert("a refused request leaves the muting as it was", w.open() <= openBefore)
	}
	if w.open() > w.maxOpen {
		w.maxOpen = w.open()
	}
}

// worker is the skeleton of the reload worker in Run (cmd/run.go): per request it marks the reload
// active, coalesces, and leaves through one of the exits the real loop has - an early failure
// (config load / prepare: reloadActive=false + clearReloadPending), a late failure
// (finishReloadFailure), success without an old generation to retire, or success with a retirement
// whose completion channel startControlPlaneRetirement published.
func (w *c20World) worker(exits int) {
	n := 0
	for req := range w.m.reloadReqs {
		w.m.reloadActive.Store(true)
		req = w.m.coalesceReloadRequest(req)
		w.processing++
		vs.Assert("one request is processed at a time", w.processing == 1)
		_ = setRunSignalProgress(consts.ReloadProcessing, "")
		exit := vs.IntRange("exit"+strconv.Itoa(n), 0, exits-1)
		if exits == 3 && exit >= 1 {
			exit++ // quick tier: the late-failure exit (same release path as the early one) is left to thorough
		}
		n++
		w.processing--
		switch exit {
		case 0:
			_ = setRunSignalProgress(consts.ReloadError, "load failed")
			w.m.reloadActive.Store(false)
			clearReloadPending(&w.m.reloadPending)
		case 1:
			_ = setRunSignalProgress(consts.ReloadError, "ready wait failed")
			w.m.finishReloadFailure()
		case 2:
			_ = setRunSignalProgress(consts.ReloadDone, "")
			w.m.finishReloadSuccess()
		case 3:
			done := make(chan struct{})
			w.m.mu.Lock()
			w.m.pendingRetirementDone = done
			w.m.mu.Unlock()
			w.retiring++
			go func() { // the retirement goroutine: drains, closes the old generation, then reports
				vs.Yield()
				w.retiring--
				close(done)
			}()
			_ = setRunSignalProgress(consts.ReloadDone, "")
			w.m.finishReloadSuccess()
		}
	}
}

// Verif_C20_protocol: signals arriving at any point relative to the worker's progress, every exit
// of the worker, retirement finishing at any point: requests never overlap, refusals are reported
// and change nothing, the muting is always lifted, and afterwards a new request is accepted.
func Verif_C20_protocol() {
	pre := 1
	if vs.Thorough() {
		pre = 2
	}
	vs.Schedules(pre)
	w := c20Setup()
	go w.worker(4)
	go func() {
		w.signal(vs.Choice("sig0.suspend", 2) == 1)
		vs.Yield() // signals arrive at arbitrary times: the worker may get anywhere before the next one
		w.signal(false)
	}()
	vs.Join()
	vs.Assert("muting lifted once everything has settled", w.open() == 0)
	vs.Assert("pending flag released once everything has settled", !w.m.reloadPending.Load() && !w.m.reloadActive.Load())
	// `dae reload` refuses to signal while the progress file says busy: a busy report that outlives
	// the reload it was written for would leave the command line wedged
	vs.Assert("no busy report is left behind once everything has settled", w.code != consts.ReloadBusy)
	vs.Assert("every accepted request was taken by the worker", len(w.m.reloadReqs) == 0)
	// dae accepts a new request again
	ok := w.m.queueReloadRequest(nil, reloadRequest{})
	vs.Assert("a new request is accepted after every outcome", ok)
	vs.Join()
	vs.Assert("and it is processed and released too", w.open() == 0 && !w.m.reloadPending.Load())
}

// ---- retirement of the previous generation always ends ----

type c20Plane struct {
	sessions int
	idle     chan struct{}
	aborted  int
}

func (p *c20Plane) ActiveSessionCount() int          { return p.sessions }
func (p *c20Plane) DrainIdleCh() <-chan struct{}     { return p.idle }
func (p *c20Plane) AbortConnections() error          { p.aborted++; return nil }

// Verif_C20_retirement: the old generation still has a session that never goes idle. Whatever the
// remaining drain budget (including none at all, when the reload itself used it up), whether the
// generations share dialers and whether an abort was requested, retiring its connections comes to
// an end - and so the reload that waits for it is released. A budget of zero means "do not wait",
// not "wait for ever".
func Verif_C20_retirement() {
	vs.Schedules(0)
	log := logrus.New()
	log.SetLevel(logrus.PanicLevel)
	plane := &c20Plane{sessions: vs.Choice("activeSessions", 2), idle: make(chan struct{})}
	budget := []time.Duration{0, 5 * time.Second}[vs.Choice("budgetLeft", 2)]
	abort, overlap := vs.Choice("abortRequested", 2) == 1, vs.Choice("dialerOverlap", 2) == 1
	done := false
	go func() {
		retireControlPlaneConnections(log, context.Background(), plane, abort, overlap, budget)
		done = true
	}()
	vs.Join()
	vs.Assert("retiring the old generation's connections always comes to an end", done)
	if plane.sessions > 0 {
		vs.Assert("sessions that do not go idle are aborted when the budget is over", plane.aborted >= 1)
	}
}
