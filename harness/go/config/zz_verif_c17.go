//go:build verif

package config

import (
	"errors"
	"io"
	"io/fs"
	"os"
	"strings"
	"time"

	"github.com/daeuniverse/dae/pkg/config_parser"
	vs "github.com/daeuniverse/dae/zz_vs"
)

// A directory tree and the parser are modelled; the merge itself (Merger.Merge, dfsMerge, readEntry
// with its cycle / suffix / scope checks, convertSectionsToMap, mergeItems) is the real code.

type c17File struct {
	includes []string   // values of its include { } section, as written
	blocks   [][]string // its 'routing' sections in written order, each a list of item tags
}

type c17FS struct {
	files  map[string]*c17File
	opened []string
	byFile map[*os.File]string
}

type c17Info struct{ name string }

func (i c17Info) Name() string       { return i.name }
func (i c17Info) Size() int64        { return 1 }
func (i c17Info) Mode() fs.FileMode  { return 0o600 }
func (i c17Info) ModTime() time.Time { return time.Time{} }
func (i c17Info) IsDir() bool        { return false }
func (i c17Info) Sys() any           { return nil }

func c17Install(f *c17FS) {
	vs.Replace("os.Open", func(name string) (*os.File, error) {
		if _, ok := f.files[name]; !ok {
			return nil, fs.ErrNotExist
		}
		f.opened = append(f.opened, name)
		h := &os.File{}
		f.byFile[h] = name
		return h, nil
	})
	vs.Replace("(*os.File).Close", func(h *os.File) error { return nil })
	vs.Replace("(*os.File).Stat", func(h *os.File) (os.FileInfo, error) { return c17Info{f.byFile[h]}, nil })
	vs.Replace("os.Stat", func(name string) (os.FileInfo, error) {
		if _, ok := f.files[name]; !ok {
			return nil, fs.ErrNotExist
		}
		return c17Info{name}, nil
	})
	vs.Replace("io.ReadAll", func(r io.Reader) ([]byte, error) { return []byte(f.byFile[r.(*os.File)]), nil })
	vs.Replace("path/filepath.Glob", func(pattern string) ([]string, error) {
		if strings.HasSuffix(pattern, "*.dae") { // the only glob used below: every file of that directory, sorted
			var out []string
			dir := strings.TrimSuffix(pattern, "*.dae")
			for _, n := range []string{"/etc/dae/conf.d/10.dae", "/etc/dae/conf.d/20.dae"} {
				if _, ok := f.files[n]; ok && strings.HasPrefix(n, dir) {
					out = append(out, n)
				}
			}
			return out, nil
		}
		return []string{pattern}, nil // a plain path matches itself (Glob does not require existence for the caller's purposes)
	})
	// reflection is outside the executor: the key listing of the entry map is given directly
	vs.Replace("github.com/daeuniverse/dae/common.MapKeys", func(m any) ([]string, error) {
		var keys []string
		for k := range m.(map[string]map[string][]*config_parser.Item) {
			keys = append(keys, k)
		}
		return keys, nil
	})
	// the text of a file is its own name; "parsing" it yields the sections the model file holds
	vs.Replace("github.com/daeuniverse/dae/pkg/config_parser.Parse", func(text string) ([]*config_parser.Section, error) {
		file := f.files[text]
		var secs []*config_parser.Section
		if len(file.includes) > 0 {
			s := &config_parser.Section{Name: "include"}
			for _, inc := range file.includes {
				s.Items = append(s.Items, &config_parser.Item{Type: config_parser.ItemType_Param, Value: &config_parser.Param{Val: inc}})
			}
			secs = append(secs, s)
		}
		for _, b := range file.blocks {
			s := &config_parser.Section{Name: "routing"}
			for _, tag := range b {
				s.Items = append(s.Items, &config_parser.Item{Type: config_parser.ItemType_Param, Value: &config_parser.Param{Key: "rule", Val: tag}})
			}
			secs = append(secs, s)
		}
		return secs, nil
	})
}

// Verif_C17_include_merge: an entry file with two routing blocks includes files (relative path,
// glob over a sub-directory, nested include), optionally closing a cycle, reaching out of the
// configuration directory, or naming a file that is not a .dae file. The merged routing section is
// the entry's own items in written order followed by each included file's, depth first in listed
// order; a cycle is rejected with ErrCircularInclude; nothing outside the directory and nothing
// that is not a .dae file is ever opened.
func Verif_C17_include_merge() {
	f := &c17FS{files: map[string]*c17File{}, byFile: map[*os.File]string{}}
	c17Install(f)
	variant := vs.Choice("graph", 6)
	f.files["/etc/dae/config.dae"] = &c17File{includes: []string{"a.dae", "conf.d/*.dae"}, blocks: [][]string{{"e1", "e2"}, {"e3"}}}
	f.files["/etc/dae/a.dae"] = &c17File{includes: []string{"b.dae"}, blocks: [][]string{{"a1"}}}
	f.files["/etc/dae/b.dae"] = &c17File{blocks: [][]string{{"b1"}, {"b2"}}}
	f.files["/etc/dae/conf.d/10.dae"] = &c17File{blocks: [][]string{{"c10"}}}
	f.files["/etc/dae/conf.d/20.dae"] = &c17File{blocks: [][]string{{"c20"}}}
	f.files["/etc/secret.dae"] = &c17File{blocks: [][]string{{"SECRET"}}}
	f.files["/etc/dae/notes.txt"] = &c17File{blocks: [][]string{{"TXT"}}}
	want := []string{"e1", "e2", "e3", "a1", "b1", "b2", "c10", "c20"}
	wantErr := false
	switch variant {
	case 1: // b includes the entry again
		f.files["/etc/dae/b.dae"].includes = []string{"config.dae"}
		wantErr = true
	case 2: // a reaches out of the configuration directory
		f.files["/etc/dae/a.dae"].includes = []string{"../secret.dae"}
		wantErr = true
	case 3: // an absolute path outside
		f.files["/etc/dae/a.dae"].includes = []string{"/etc/secret.dae"}
		wantErr = true
	case 4: // a file that is not a .dae file is skipped by the expansion
		f.files["/etc/dae/a.dae"].includes = []string{"notes.txt", "b.dae"}
	case 5: // listed order is not alphabetical order
		f.files["/etc/dae/z.dae"] = &c17File{blocks: [][]string{{"z1"}}}
		f.files["/etc/dae/config.dae"].includes = []string{"z.dae", "conf.d/*.dae", "a.dae"}
		want = []string{"e1", "e2", "e3", "z1", "c10", "c20", "a1", "b1", "b2"}
	}
	secs, _, err := NewMerger("/etc/dae/config.dae").Merge()
	for _, o := range f.opened {
		vs.Assert("only .dae files inside the configuration directory are ever opened", strings.HasSuffix(o, ".dae") && strings.HasPrefix(o, "/etc/dae/"))
	}
	if wantErr {
		vs.Assert("the bad include graph is rejected with an error", err != nil)
		if variant == 1 {
			vs.Assert("a cycle is reported as such", errors.Is(err, ErrCircularInclude))
		}
		return
	}
	vs.Assert("a well-formed include graph merges", err == nil)
	var got []string
	for _, s := range secs {
		if s.Name == "routing" {
			for _, it := range s.Items {
				got = append(got, it.Value.(*config_parser.Param).Val)
			}
		}
	}
	same := len(got) == len(want)
	for i := 0; i < len(want) && i < len(got); i++ {
		same = same && got[i] == want[i]
	}
	vs.Assert("merged items: the including file first in written order, then each included file in listed order", same)
}
