//go:build verif

package trie

import (
	"strconv"

	vs "github.com/daeuniverse/dae/zz_vs"
)

var c11Chars = NewValidChars([]byte("0123456789abcdefghijklmnopqrstuvwxyz-.^_"))

// Verif_C11_trie_contract: NewTrie(keys) then HasPrefix(w) <=> some key is a prefix of w. Key sets
// are chosen from a pool containing keys that are prefixes of one another, a duplicate and the
// alphabet's zero character; the queried word is symbolic over the same letters plus an invalid one.
func Verif_C11_trie_contract() {
	pool := []string{"a", "ab", "0", "a0", "0a", ".a", "a.", "ab."}
	if vs.Thorough() {
		pool = append(pool, "^a", "aba")
	}
	nKeys := 2
	if vs.Thorough() {
		nKeys = 3
	}
	keys := make([]string, nKeys)
	for i := range keys {
		keys[i] = pool[vs.Choice("key"+strconv.Itoa(i), len(pool))]
	}
	maxWord := 3
	if vs.Thorough() {
		maxWord = 4
	}
	wlen := vs.Choice("word.len", maxWord+1)
	wb := vs.Bytes("word", wlen)
	for i := range wb {
		ok := wb[i] == '0' || wb[i] == 'a' || wb[i] == 'b' || wb[i] == '.'
		if vs.Thorough() {
			ok = ok || wb[i] == '^' || wb[i] == '@'
		}
		vs.Assume(ok)
	}
	w := string(wb)
	t, err := NewTrie(append([]string(nil), keys...), c11Chars)
	vs.Assert("trie builds", err == nil)
	want := false
	for _, k := range keys {
		if len(k) <= len(w) {
			want = vs.IteBool(w[:len(k)] == k, true, want)
		}
	}
	vs.Assert("HasPrefix <=> some key is a prefix of the word", t.HasPrefix(w) == want)
}

// Verif_C11_trie_words: a key set large enough for the label bitmap, rank and select tables to span
// several 64-bit words (all two-letter keys over a..j whose letter sum is not divisible by 3, plus
// the one-letter key "k"); every three-letter query over a..l.
func Verif_C11_trie_words() {
	var keys []string
	member := map[string]bool{}
	for a := byte('a'); a <= 'j'; a++ {
		for b := byte('a'); b <= 'j'; b++ {
			if (int(a)+int(b))%3 != 0 {
				k := string([]byte{a, b})
				keys = append(keys, k)
				member[k] = true
			}
		}
	}
	keys = append(keys, "k")
	t, err := NewTrie(keys, c11Chars)
	vs.Assert("trie builds", err == nil)
	q := vs.Bytes("query", 3)
	for i := range q {
		vs.Assume(q[i] >= 'a' && q[i] <= 'l')
	}
	// specification by table lookup on the concretised first two letters
	c0, c1 := vs.ConcreteByte(q[0]), vs.ConcreteByte(q[1])
	want := c0 == 'k' || member[string([]byte{c0, c1})]
	vs.Assert("membership across word boundaries of the succinct tables", t.HasPrefix(string(q)) == want)
}
