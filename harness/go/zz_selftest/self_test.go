//go:build verif

package zz_selftest

import "testing"

func TestSelfNative(t *testing.T) {
	Self_ints()
	Self_structs()
	Self_slices_maps()
	Self_strings()
	Self_netip()
	Self_netip2()
	Self_repo()
	Self_misc()
	Self_threads()
}
