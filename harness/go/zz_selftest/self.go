//go:build verif

// Package zz_selftest: conformance corpus for the symbolic executor. Every function
// computes values on concrete data and emits them; the driver compares what the
// executor computes with what the natively compiled code prints.
package zz_selftest

import (
	"encoding/binary"
	"net"
	"errors"
	"fmt"
	"math/bits"
	"net/netip"
	"sort"
	"strconv"
	"strings"
	"sync"
	"sync/atomic"

	"github.com/daeuniverse/dae/common"
	"github.com/daeuniverse/dae/common/bitlist"
	"github.com/daeuniverse/dae/pkg/trie"
	vs "github.com/daeuniverse/dae/zz_vs"
)

func h(acc uint64, v uint64) uint64 { return (acc ^ v) * 0x100000001b3 }

func hs(acc uint64, s string) uint64 {
	for i := 0; i < len(s); i++ {
		acc = h(acc, uint64(s[i]))
	}
	return h(acc, uint64(len(s)))
}

func Self_ints() {
	var acc uint64 = 14695981039346656037
	xs := []int64{0, 1, -1, 127, -128, 1 << 31, -(1 << 31), 1<<63 - 1, -1 << 63, 12345678901}
	for _, a := range xs {
		for _, b := range xs {
			acc = h(acc, uint64(a+b))
			acc = h(acc, uint64(a-b))
			acc = h(acc, uint64(a*b))
			if b != 0 {
				acc = h(acc, uint64(a/b))
				acc = h(acc, uint64(a%b))
			}
			acc = h(acc, uint64(a&b))
			acc = h(acc, uint64(a|b))
			acc = h(acc, uint64(a^b))
			acc = h(acc, uint64(a&^b))
			if a < b {
				acc = h(acc, 1)
			}
			if uint64(a) <= uint64(b) {
				acc = h(acc, 2)
			}
			sh := uint(b) & 127
			acc = h(acc, uint64(a<<sh))
			acc = h(acc, uint64(a>>sh))
			acc = h(acc, uint64(a)>>sh)
			acc = h(acc, uint64(int8(a))+uint64(uint8(b))+uint64(int16(a))+uint64(uint16(b))+uint64(int32(a))+uint64(uint32(b)))
			acc = h(acc, uint64(int32(a)>>(sh&63)))
			acc = h(acc, uint64(uint8(a)<<(sh&15)))
			acc = h(acc, uint64(bits.OnesCount64(uint64(a)))+uint64(bits.TrailingZeros64(uint64(b)))<<8+uint64(bits.Len64(uint64(a)))<<16+uint64(bits.LeadingZeros32(uint32(b)))<<24)
		}
	}
	vs.Emit("ints", acc)
}

type shape interface {
	Area() int
	Name() string
}
type rect struct{ w, h int }
type sq struct {
	rect
	tag string
}

func (r rect) Area() int    { return r.w * r.h }
func (r rect) Name() string { return "rect" }
func (s *sq) Name() string  { return "sq:" + s.tag }

type myErr struct{ code int }

func (e *myErr) Error() string { return "myerr " + strconv.Itoa(e.code) }

var errBase = errors.New("base")

func mayPanic(i int) (res int, err error) {
	defer func() {
		if r := recover(); r != nil {
			err = fmt.Errorf("recovered: %v", r)
			res = -1
		}
	}()
	arr := []int{1, 2, 3}
	return arr[i], nil
}

func Self_structs() {
	var acc uint64 = 1
	shapes := []shape{rect{2, 3}, &sq{rect{4, 4}, "x"}, &rect{5, 6}}
	for _, s := range shapes {
		acc = h(acc, uint64(s.Area()))
		acc = hs(acc, s.Name())
		switch v := s.(type) {
		case rect:
			acc = h(acc, uint64(v.w))
		case *sq:
			acc = hs(acc, v.tag)
			v.w = 9
		case *rect:
			acc = h(acc, 77)
		}
	}
	acc = h(acc, uint64(shapes[1].Area()))
	// errors
	e1 := fmt.Errorf("wrap: %w", errBase)
	e2 := fmt.Errorf("wrap2: %w", &myErr{7})
	if errors.Is(e1, errBase) {
		acc = h(acc, 11)
	}
	if errors.Is(e2, errBase) {
		acc = h(acc, 12)
	}
	var me *myErr
	if errors.As(e2, &me) {
		acc = h(acc, uint64(me.code))
	}
	if errors.As(e1, &me) {
		acc = h(acc, 13)
	}
	for i := 0; i < 5; i++ {
		r, err := mayPanic(i)
		acc = h(acc, uint64(r))
		if err != nil {
			acc = h(acc, 99)
		}
	}
	// closures
	var fs []func() int
	for i := 0; i < 3; i++ {
		fs = append(fs, func() int { return i * 10 })
	}
	ctr := 0
	inc := func() { ctr++ }
	for _, f := range fs {
		acc = h(acc, uint64(f()))
		inc()
	}
	acc = h(acc, uint64(ctr))
	// arrays by value
	a := [4]int{1, 2, 3, 4}
	b := a
	b[2] = 9
	acc = h(acc, uint64(a[2]*10+b[2]))
	pa := &a
	pa[1] = 5
	acc = h(acc, uint64(a[1]))
	type pair struct {
		k string
		v [2]uint16
	}
	p1, p2 := pair{"a", [2]uint16{1, 2}}, pair{"a", [2]uint16{1, 2}}
	if p1 == p2 {
		acc = h(acc, 5)
	}
	p2.v[1] = 3
	if p1 != p2 {
		acc = h(acc, 6)
	}
	vs.Emit("structs", acc)
}

func Self_slices_maps() {
	var acc uint64 = 1
	s := make([]int, 0, 2)
	s = append(s, 1, 2)
	t := append(s, 3)
	u := append(s[:1], 7)
	acc = h(acc, uint64(s[1]*100+t[1]*10+u[1]))
	acc = h(acc, uint64(len(t)*100+cap(s)))
	v := s[1:2:2]
	v = append(v, 4)
	v[0] = 8
	acc = h(acc, uint64(s[1]))
	w := make([]byte, 5)
	n := copy(w, "hello world")
	acc = hs(acc, string(w[:n]))
	copy(w[1:], w)
	acc = hs(acc, string(w))
	m := map[string]int{}
	for i, k := range []string{"a", "b", "c", "a", "d", "b"} {
		m[k] += i
	}
	delete(m, "c")
	keys := make([]string, 0)
	for k := range m {
		keys = append(keys, k)
	}
	sort.Strings(keys)
	for _, k := range keys {
		acc = hs(acc, k)
		acc = h(acc, uint64(m[k]))
	}
	if _, ok := m["zz"]; !ok {
		acc = h(acc, 3)
	}
	type key struct {
		a netip.Addr
		p uint16
	}
	mk := map[key]string{}
	mk[key{netip.MustParseAddr("1.2.3.4"), 80}] = "x"
	mk[key{netip.MustParseAddr("::ffff:1.2.3.4"), 80}] = "y"
	mk[key{netip.MustParseAddr("1.2.3.4"), 80}] += "z"
	acc = h(acc, uint64(len(mk)))
	acc = hs(acc, mk[key{netip.AddrFrom4([4]byte{1, 2, 3, 4}), 80}])
	people := []struct {
		n string
		a int
	}{{"bob", 30}, {"al", 25}, {"cy", 30}, {"di", 20}}
	sort.Slice(people, func(i, j int) bool { return people[i].a < people[j].a })
	for _, p := range people {
		acc = h(acc, uint64(p.a))
	}
	var grid [3][4]uint8
	for i := range grid {
		for j := range grid[i] {
			grid[i][j] = uint8(i*4 + j)
		}
	}
	row := grid[1][:]
	row[2] = 99
	acc = h(acc, uint64(grid[1][2])+uint64(grid[2][3]))
	vs.Emit("slices_maps", acc)
}

func Self_strings() {
	var acc uint64 = 1
	s := "Hello, World.Example.COM."
	acc = hs(acc, strings.ToLower(s))
	acc = hs(acc, strings.TrimSuffix(s, "."))
	for _, p := range strings.Split(s, ".") {
		acc = hs(acc, p)
	}
	acc = h(acc, uint64(strings.Index(s, "World")))
	acc = h(acc, uint64(strings.LastIndex(s, ".")))
	acc = h(acc, uint64(strings.IndexByte(s, 'W')))
	if strings.HasPrefix(s, "Hell") && strings.HasSuffix(s, "COM.") && strings.Contains(s, "Exam") {
		acc = h(acc, 7)
	}
	var sb strings.Builder
	for i := 0; i < 5; i++ {
		sb.WriteString(strconv.Itoa(i * 37))
		sb.WriteByte('-')
	}
	acc = hs(acc, sb.String())
	n, err := strconv.Atoi("12345")
	acc = h(acc, uint64(n))
	if _, err = strconv.Atoi("12x"); err != nil {
		acc = h(acc, 8)
	}
	u, _ := strconv.ParseUint("65535", 10, 16)
	acc = h(acc, u)
	if _, err := strconv.ParseUint("65536", 10, 16); err != nil {
		acc = h(acc, 9)
	}
	for i, r := range "aé世z" {
		acc = h(acc, uint64(i)<<32|uint64(r))
	}
	acc = hs(acc, strings.Join([]string{"a", "b", "c"}, "&&"))
	acc = hs(acc, strings.TrimSpace("  x y \n"))
	acc = hs(acc, strings.ReplaceAll("a.b.c", ".", "::"))
	f := strings.Fields(" a  bb ccc ")
	acc = h(acc, uint64(len(f)))
	if "abc" < "abd" && "ab" < "abc" && !("b" < "abc") {
		acc = h(acc, 10)
	}
	bs := []byte("xyz")
	bs[1] = 'Y'
	acc = hs(acc, string(bs))
	acc = h(acc, uint64(binary.BigEndian.Uint16([]byte{1, 2}))<<32|uint64(binary.LittleEndian.Uint32([]byte{1, 2, 3, 4})))
	buf := make([]byte, 8)
	binary.BigEndian.PutUint32(buf, 0xdeadbeef)
	binary.LittleEndian.PutUint16(buf[4:], 0x1234)
	acc = hs(acc, string(buf))
	vs.Emit("strings", acc)
}

func Self_netip2() {
	var acc uint64 = 1
	for _, raw := range [][]byte{net.IPv4(1, 1, 1, 1).To4(), net.IPv4(0, 0, 0, 0).To4(), net.ParseIP("2001:db8::2"), net.ParseIP("::"), net.IPv4(1, 1, 1, 1)} {
		ip, ok := netip.AddrFromSlice(raw)
		if ok {
			acc = h(acc, 1)
		}
		if ip.IsUnspecified() {
			acc = h(acc, 2)
		}
		if ip.Is4() {
			acc = h(acc, 3)
		}
		if ip.Is4In6() {
			acc = h(acc, 4)
		}
		a16 := ip.As16()
		acc = h(acc, uint64(a16[15])+uint64(a16[10])<<8)
		if ip == netip.IPv4Unspecified() {
			acc = h(acc, 5)
		}
		var f uint64
		if ok {
			f |= 1
		}
		if ip.IsUnspecified() {
			f |= 2
		}
		if ip.Is4() {
			f |= 4
		}
		if ip.Is4In6() {
			f |= 8
		}
		if ip == netip.IPv4Unspecified() {
			f |= 16
		}
		vs.Emit("netip2_"+string(rune('a'+len(raw)%7))+string(rune('0'+int(raw[len(raw)-1])%10)), f|uint64(a16[15])<<8|uint64(a16[10])<<16)
	}
	vs.Emit("netip2", acc)
}

func Self_netip() {
	var acc uint64 = 1
	for _, s := range []string{"10.0.0.0/8", "192.168.1.77/24", "::/0", "2001:db8::1/64", "::ffff:1.2.3.4/104", "0.0.0.0/0", "1.2.3.4/32"} {
		p, err := netip.ParsePrefix(s)
		if err != nil {
			acc = h(acc, 404)
			continue
		}
		acc = h(acc, uint64(p.Bits()))
		a16 := p.Addr().As16()
		for _, b := range a16 {
			acc = h(acc, uint64(b))
		}
		if p.Addr().Is4() {
			acc = h(acc, 4)
		}
		if p.Addr().Is4In6() {
			acc = h(acc, 46)
		}
		acc = hs(acc, p.Masked().String())
		acc = hs(acc, trie.Prefix2bin128(p))
		if p.Contains(netip.MustParseAddr("10.1.2.3")) {
			acc = h(acc, 5)
		}
	}
	if _, err := netip.ParseAddr("1.2.3"); err != nil {
		acc = h(acc, 6)
	}
	ap := netip.MustParseAddrPort("[::1]:8080")
	acc = h(acc, uint64(ap.Port()))
	acc = hs(acc, ap.String())
	vs.Emit("netip", acc)
}

func Self_repo() {
	var acc uint64 = 1
	for unit := 1; unit <= 19; unit += 3 {
		bl := bitlist.NewCompactBitList(unit)
		for i := 0; i < 20; i++ {
			bl.Append(uint64(i*7919) & (1<<unit - 1))
		}
		bl.Set(3, 1)
		for i := 0; i < 20; i++ {
			acc = h(acc, bl.Get(i))
		}
		bl.Tighten()
	}
	tr, err := trie.NewTrieFromPrefixes([]netip.Prefix{
		netip.MustParsePrefix("10.0.0.0/8"), netip.MustParsePrefix("192.168.0.0/16"), netip.MustParsePrefix("2001:db8::/32"),
		netip.MustParsePrefix("1.1.1.1/32"), netip.MustParsePrefix("10.1.0.0/16"),
	})
	if err != nil {
		acc = h(acc, 404)
	} else {
		for _, a := range []string{"10.2.3.4", "11.0.0.1", "192.168.255.255", "192.169.0.0", "2001:db8:1::1", "2001:db9::", "1.1.1.1", "1.1.1.2"} {
			ad := netip.MustParseAddr(a)
			if tr.HasPrefix(trie.Prefix2bin128(netip.PrefixFrom(ad, ad.BitLen()))) {
				acc = h(acc, 1)
			} else {
				acc = h(acc, 0)
			}
		}
	}
	for _, s := range []string{"80", "1-65535", "100-50", "x", "70000", "5-", "443-443"} {
		r, err := common.ParsePortRange(s)
		_ = r
		if err != nil {
			acc = h(acc, 400)
		} else {
			acc = h(acc, 200)
		}
	}
	vs.Emit("repo", acc)
}

type stack[T any] struct{ items []T }

func (s *stack[T]) push(v T) { s.items = append(s.items, v) }
func (s *stack[T]) pop() (T, bool) {
	var z T
	if len(s.items) == 0 {
		return z, false
	}
	v := s.items[len(s.items)-1]
	s.items = s.items[:len(s.items)-1]
	return v, true
}

func maxOf[T int | uint8 | string](a, b T) T {
	if a > b {
		return a
	}
	return b
}

func Self_misc() {
	var acc uint64 = 1
	st := &stack[string]{}
	st.push("a")
	st.push("bb")
	v, _ := st.pop()
	acc = hs(acc, v)
	acc = h(acc, uint64(maxOf(3, 9)))
	acc = hs(acc, maxOf("x", "abc"))
	var mu sync.Mutex
	var cnt atomic.Int64
	var once sync.Once
	for i := range 4 {
		mu.Lock()
		cnt.Add(int64(i))
		once.Do(func() { cnt.Add(100) })
		mu.Unlock()
	}
	acc = h(acc, uint64(cnt.Load()))
	if cnt.CompareAndSwap(106, 1) {
		acc = h(acc, uint64(cnt.Load()))
	}
	ch := make(chan int, 3)
	ch <- 1
	ch <- 2
	close(ch)
	for x := range ch {
		acc = h(acc, uint64(x))
	}
	select {
	case x, ok := <-ch:
		if !ok {
			acc = h(acc, uint64(x)+50)
		}
	default:
		acc = h(acc, 51)
	}
outer:
	for i := 0; i < 4; i++ {
		for j := 0; j < 4; j++ {
			if j == 2 {
				continue outer
			}
			if i == 3 {
				break outer
			}
			acc = h(acc, uint64(i*4+j))
		}
	}
	var ip interface{} = 5
	switch x := ip.(type) {
	case string:
		acc = hs(acc, x)
	case int:
		acc = h(acc, uint64(x))
	}
	f := 1.5
	f = f*2 + 0.25
	acc = h(acc, uint64(f*100))
	g := -3.7
	acc = h(acc, uint64(int(g)))
	x := uint8(200)
	x += 100
	acc = h(acc, uint64(x))
	y := int8(-128)
	y = -y
	acc = h(acc, uint64(uint8(y)))
	acc = h(acc, uint64(min(3, 1, 2))+uint64(max(3, 1, 2))<<8)
	vs.Emit("misc", acc)
}

// Self_threads: goroutines that block on channels, a mutex and a WaitGroup, with a deterministic
// outcome whatever the schedule (so native and engine agree).
func Self_threads() {
	var acc uint64 = 7
	done := make(chan struct{})
	res := make(chan uint64, 4)
	var flag atomic.Bool
	go func() {
		<-done // parked until closed
		flag.Store(true)
		res <- 11
	}()
	var wg sync.WaitGroup
	var mu sync.Mutex
	total := 0
	for i := 1; i <= 3; i++ {
		wg.Add(1)
		go func(k int) {
			defer wg.Done()
			mu.Lock()
			total += k
			mu.Unlock()
		}(i)
	}
	wg.Wait()
	acc = h(acc, uint64(total))
	if flag.Load() {
		acc = h(acc, 999) // must not happen: done not closed yet
	}
	close(done)
	acc = h(acc, <-res)
	if flag.Load() {
		acc = h(acc, 5)
	}
	// ping-pong over unbuffered channels
	ping, pong := make(chan int), make(chan int)
	go func() {
		for v := range ping {
			pong <- v * 2
		}
		close(pong)
	}()
	for i := 1; i <= 3; i++ {
		ping <- i
		acc = h(acc, uint64(<-pong))
	}
	close(ping)
	_, ok := <-pong
	if !ok {
		acc = h(acc, 77)
	}
	vs.Emit("threads", acc)
}

// Verif_Self_lost_update: two goroutines increment a counter with a separate atomic load and
// store. With one preemption allowed the lost update must be found (the engine's schedule
// exploration is validated by this expected violation); with none it must not.
func Verif_Self_lost_update() {
	vs.Schedules(vs.Choice("preemptions", 2))
	var c atomic.Int64
	inc := func() {
		v := c.Load()
		c.Store(v + 1)
	}
	go inc()
	go inc()
	vs.Join()
	vs.Assert("both increments counted", c.Load() == 2)
}

// Verif_Self_cas_ok: the same with a CAS loop is correct under every schedule with <=2 preemptions.
func Verif_Self_cas_ok() {
	vs.Schedules(2)
	var c atomic.Int64
	inc := func() {
		for {
			v := c.Load()
			if c.CompareAndSwap(v, v+1) {
				return
			}
		}
	}
	go inc()
	go inc()
	vs.Join()
	vs.Assert("both increments counted", c.Load() == 2)
}
