//go:build verif

package bitlist

import (
	"strconv"

	vs "github.com/daeuniverse/dae/zz_vs"
)

// Verif_C11_bitlist: the packed list the succinct trie stores its labels, ranks and selects in.
// For every unit width 1..17 (units straddle 16-bit cells) and arbitrary values: what was
// appended is what is read back, and overwriting one unit changes no other.
func Verif_C11_bitlist() {
	unit := 1 + vs.Choice("unitBits", 17)
	n := 6
	l := NewCompactBitList(unit)
	vals := make([]uint64, n)
	for i := range vals {
		vals[i] = vs.U64("v"+strconv.Itoa(i)) & (1<<uint(unit) - 1)
		l.Append(vals[i])
	}
	for i := range vals {
		vs.Assert("read back what was appended", l.Get(i) == vals[i])
	}
	j := vs.Choice("overwrite", n)
	nv := vs.U64("new") & (1<<uint(unit) - 1)
	l.Set(j, nv)
	vals[j] = nv
	l.Tighten()
	for i := range vals {
		vs.Assert("overwriting one unit leaves the others intact", l.Get(i) == vals[i])
	}
}
