//go:build verif

package common

import (
	vs "github.com/daeuniverse/dae/zz_vs"
)

// c17Resolve is the reference: the directory a slash-separated path designates, resolved lexically
// from the root, as a list of names.
func c17Resolve(p string) []string {
	var stack []string
	name := ""
	flush := func() {
		switch name {
		case "", ".":
		case "..":
			if len(stack) > 0 {
				stack = stack[:len(stack)-1]
			}
		default:
			stack = append(stack, name)
		}
		name = ""
	}
	for i := 0; i < len(p); i++ {
		if p[i] == '/' {
			flush()
		} else {
			name += string(p[i])
		}
	}
	flush()
	return stack
}

// Verif_C17_include_scope: an included file is accepted only if it lies inside the entry
// configuration directory: for every path spelled with names, '.', '..' and '/' below
// /etc/dae/, EnsureFileInSubDir returning nil implies that the file's directory, resolved
// lexically, is /etc/dae or below it.
func Verif_C17_include_scope() {
	n := 5
	if vs.Thorough() {
		n = 7
	}
	tail := vs.Bytes("path", n)
	for i := range tail {
		vs.Assume(tail[i] == 'a' || tail[i] == '.' || tail[i] == '/')
	}
	file := "/etc/dae/" + string(tail) + "/x.dae"
	err := EnsureFileInSubDir(file, "/etc/dae")
	if err != nil {
		return
	}
	full := c17Resolve(file)
	dir := full[:len(full)-1] // drop the file name
	inside := len(dir) >= 2 && dir[0] == "etc" && dir[1] == "dae"
	vs.Assert("an accepted include lies inside the configuration directory", inside)
}
