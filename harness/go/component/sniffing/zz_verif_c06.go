//go:build verif

package sniffing

import (
	"io"
	"net"
	"strconv"
	"time"

	"github.com/daeuniverse/dae/component/sniffing/internal/quicutils"
	"github.com/daeuniverse/outbound/pool"
	vs "github.com/daeuniverse/dae/zz_vs"
)

// Verif_C06_tls_arbitrary: the ClientHello parser on a handshake message of arbitrary bytes held in
// a buffer with no spare capacity (as a receive buffer filled to the brim is): it never panics and
// never reads outside the message.
func Verif_C06_tls_arbitrary() {
	n := 49 + vs.Choice("extra", 3)
	msg := vs.Bytes("hello", n)
	// steer towards the parser's interior: handshake type, version, then arbitrary lengths
	vs.Assume(msg[0] == HandShakeType_Hello && msg[4] == 0x03 && msg[5] >= 1 && msg[5] <= 3)
	// the implicit obligation is "no panic" (slice bounds, index, nil) on every path
	_, _ = extractSniFromTls(quicutils.BuiltinBytesLocator(msg))
}

// c06Hello assembles a well-formed ClientHello handshake message from symbolic fields.
type c06Hello struct {
	bytes    []byte
	wantName string
}

func c06U16(v int) []byte { return []byte{byte(v >> 8), byte(v)} }

// c06BigPad: when set, the padding extension is 4200 bytes long, so that the hello is longer than the
// sniffer's initial 4096-byte buffer (still far below the 16 KiB record limit).
var c06BigPad bool

// c06NoSni: when set, the hello carries no server_name extension (a client that dials an IP
// literal, or one that only sends an encrypted name).
var c06NoSni bool

func c06Build(oneShape bool) *c06Hello {
	h := &c06Hello{}
	var body []byte
	minor := vs.U8("legacy.minor")
	vs.Assume(minor >= 1 && minor <= 3)
	body = append(body, 0x03, minor) // legacy_version
	body = append(body, vs.Bytes("random", 32)...)
	sidLen := 0
	if !oneShape {
		sidLen = []int{0, 32, 1}[vs.Choice("sessionid.len", map[bool]int{false: 2, true: 3}[vs.Thorough()])]
	}
	body = append(body, byte(sidLen))
	body = append(body, vs.Bytes("sessionid", sidLen)...)
	nSuites := 1
	if vs.Thorough() {
		nSuites = 1 + vs.Choice("suites", 2)
	}
	body = append(body, c06U16(2*nSuites)...)
	body = append(body, vs.Bytes("suites.bytes", 2*nSuites)...)
	body = append(body, 1, 0) // one compression method: null
	// extensions: an arbitrary other extension, server_name, padding - in one of three orders
	other := append(append([]byte{}, vs.Bytes("other.type", 2)...), c06U16(2)...)
	other = append(other, vs.Bytes("other.data", 2)...)
	vs.Assume(other[0] != 0 || other[1] != 0) // not server_name
	// server_name: optionally an entry of another name type first, then the host_name entry
	nameLen := 2
	if !oneShape {
		nameLen = 1 + vs.Choice("name.len", map[bool]int{false: 3, true: 4}[vs.Thorough()])
	}
	nameBytes := vs.Bytes("name", nameLen)
	for i := range nameBytes {
		vs.Assume(nameBytes[i] == 'a' || nameBytes[i] == 'B' || nameBytes[i] == '-' || nameBytes[i] == '1')
	}
	trailingDot := vs.Bool("name.trailingDot")
	wire := append([]byte{}, nameBytes...)
	if trailingDot {
		wire = append(wire, '.')
	}
	var list []byte
	if !oneShape && vs.Bool("otherNameTypeFirst") {
		list = append(list, 1) // name_type != host_name
		list = append(list, c06U16(1)...)
		list = append(list, vs.U8("othername.byte"))
	}
	list = append(list, TlsExtension_ServerNameType_HostName)
	list = append(list, c06U16(len(wire))...)
	list = append(list, wire...)
	sni := append([]byte{0, 0}, c06U16(len(list)+2)...)
	sni = append(sni, c06U16(len(list))...)
	sni = append(sni, list...)
	padLen := 3
	if c06BigPad {
		padLen = 4200
	}
	padding := append([]byte{0, 21}, c06U16(padLen)...)
	padding = append(padding, make([]byte, padLen)...)
	if c06NoSni {
		sni = nil
	}
	var exts []byte
	order := 1
	if !oneShape || vs.Thorough() {
		order = vs.Choice("order", 3)
	}
	switch order {
	case 0:
		exts = append(append(append(exts, sni...), other...), padding...)
	case 1:
		exts = append(append(append(exts, other...), sni...), padding...)
	case 2:
		exts = append(append(append(exts, other...), padding...), sni...)
	}
	body = append(body, c06U16(len(exts))...)
	body = append(body, exts...)
	h.bytes = append([]byte{HandShakeType_Hello, 0, byte(len(body) >> 8), byte(len(body))}, body...)
	lower := make([]byte, len(nameBytes))
	for i, c := range nameBytes {
		if c >= 'A' && c <= 'Z' {
			c += 'a' - 'A'
		}
		lower[i] = c
	}
	h.wantName = string(lower)
	return h
}

// Verif_C06_tls_hello: a well-formed ClientHello (any extension order, session id sizes, an entry
// of another name type before the host name, trailing dot, mixed case) yields exactly its name.
func Verif_C06_tls_hello() {
	h := c06Build(false)
	rec := append([]byte{ContentType_HandShake, 0x03, vs.U8("record.minor")}, c06U16(len(h.bytes))...)
	rec = append(rec, h.bytes...)
	s := NewPacketSniffer(rec, time.Second)
	name, err := s.SniffTcp()
	vs.Assert("the server name of a well-formed hello is found", err == nil)
	vs.Assert("and it is the name that is carried (lower-cased, trailing dot trimmed)", name == h.wantName)
	// whatever the outcome, the relay gets the client's bytes unaltered
	got := make([]byte, len(rec)+8)
	n, _ := s.Read(got)
	same := n == len(rec)
	for i := 0; i < len(rec) && i < n; i++ {
		same = same && got[i] == rec[i]
	}
	vs.Assert("payload handed on is byte for byte what the client sent", same)
}

// Verif_C06_http: an HTTP/1 request head in one read: the Host header is found at any position,
// with any key case and optional spaces; other heads are left alone.
func Verif_C06_http() {
	methods := []string{"GET", "POST", "CONNECT", "BREW"}
	method := methods[vs.Choice("method", len(methods))]
	head := []byte(method + " / HTTP/1.1\r\n")
	hostPos := vs.Choice("host.position", 3)
	keyCase := []string{"Host", "host", "HOST", "hOsT"}[vs.Choice("host.case", 4)]
	host := []string{"a.example", "A.Example.:8080", "[::1]:80"}[vs.Choice("host.value", 3)]
	want := []string{"a.example", "a.example.", "::1"}[0]
	switch host {
	case "A.Example.:8080":
		want = "a.example."
	case "[::1]:80":
		want = "::1"
	}
	for i := 0; i < 3; i++ {
		if i == hostPos {
			sp := []string{"", " ", "  "}[vs.Choice("host.spaces", 3)]
			head = append(head, []byte(keyCase+":"+sp+host+sp+"\r\n")...)
		} else {
			// another header with arbitrary (printable, non-colon) value bytes
			v := vs.Bytes("hdr"+strconv.Itoa(i), 2)
			for _, c := range v {
				vs.Assume(c >= 'a' && c <= 'z')
			}
			head = append(head, []byte("X-"+string(v)+": "+string(v)+"\r\n")...)
		}
	}
	head = append(head, []byte("\r\nbody")...)
	s := NewPacketSniffer(head, time.Second)
	name, err := s.SniffTcp()
	if method == "BREW" {
		vs.Assert("not an HTTP method: not applicable", err != nil)
	} else {
		vs.Assert("Host header found", err == nil)
		vs.Assert("reported host is the one in the header (normalised)", name == want || (host == "A.Example.:8080" && name == "a.example."))
	}
	got := make([]byte, len(head)+8)
	n, _ := s.Read(got)
	same := n == len(head)
	for i := 0; i < len(head) && i < n; i++ {
		same = same && got[i] == head[i]
	}
	vs.Assert("payload handed on is byte for byte what the client sent", same)
}

// ---- a client connection delivering a byte stream in given chunks ----

// c06Conn is the client side of a TCP connection as the sniffer sees it. chunks[:avail] have
// arrived; a read beyond them finds nothing before the armed deadline and reports a timeout, as a
// socket does. After all chunks, the client has closed its sending side.
type c06Conn struct {
	chunks    [][]byte
	next      int
	avail     int
	deadlines []time.Time
	eofs      int
}

type c06Timeout struct{}

func (c06Timeout) Error() string   { return "i/o timeout" }
func (c06Timeout) Timeout() bool   { return true }
func (c06Timeout) Temporary() bool { return true }

func (c *c06Conn) Read(p []byte) (int, error) {
	if c.next >= len(c.chunks) {
		// end of stream; a sniffer that keeps polling meets its deadline
		c.eofs++
		if c.eofs > 1 && c.armed() {
			return 0, c06Timeout{}
		}
		return 0, io.EOF
	}
	if c.next >= c.avail {
		return 0, c06Timeout{}
	}
	n := copy(p, c.chunks[c.next])
	if n < len(c.chunks[c.next]) {
		c.chunks[c.next] = c.chunks[c.next][n:]
	} else {
		c.next++
	}
	return n, nil
}
func (c *c06Conn) armed() bool {
	return len(c.deadlines) > 0 && !c.deadlines[len(c.deadlines)-1].IsZero()
}
func (c *c06Conn) Write(p []byte) (int, error)        { return len(p), nil }
func (c *c06Conn) Close() error                       { return nil }
func (c *c06Conn) LocalAddr() net.Addr                { return nil }
func (c *c06Conn) RemoteAddr() net.Addr               { return nil }
func (c *c06Conn) SetDeadline(t time.Time) error      { c.deadlines = append(c.deadlines, t); return nil }
func (c *c06Conn) SetReadDeadline(t time.Time) error  { c.deadlines = append(c.deadlines, t); return nil }
func (c *c06Conn) SetWriteDeadline(t time.Time) error { return nil }

// c06Drain reads the client's stream the way the TCP relay does once sniffing is over: the
// buffered prefix first, then plain reads, until want bytes have arrived or a read fails.
func c06Drain(s *ConnSniffer, want int, bufSize int) (got []byte, err error) {
	got = append(got, s.TakeRelayPrefix()...)
	buf := make([]byte, bufSize)
	for i := 0; i < 40 && len(got) < want; i++ {
		n, rerr := s.Read(buf)
		got = append(got, buf[:n]...)
		if rerr != nil {
			return got, rerr
		}
	}
	return got, nil
}

func c06Same(a, b []byte) bool {
	return string(a) == string(b)
}

// Verif_C06_tls_chunked: the same well-formed hello cut into up to three reads after its record
// header: the name is still found, every read is bounded by the one deadline fixed at construction,
// the deadline is cleared when sniffing hands over, and the relay then reads the client's bytes intact.
func Verif_C06_tls_chunked() {
	c06BigPad = vs.Choice("helloLongerThan4096", 2) == 1
	h := c06Build(true)
	rec := append([]byte{ContentType_HandShake, 0x03, 0x01}, c06U16(len(h.bytes))...)
	rec = append(rec, h.bytes...)
	tail := []byte("APPDATA")
	stream := append(append([]byte{}, rec...), tail...)
	cuts := []int{5, 6, 44, len(rec) - 1, len(rec)}
	c1 := cuts[vs.Choice("cut1", len(cuts))]
	c2 := cuts[vs.Choice("cut2", len(cuts))]
	vs.Assume(c1 <= c2)
	conn := &c06Conn{chunks: [][]byte{stream[:c1], stream[c1:c2], stream[c2:]}}
	if c1 == c2 {
		conn.chunks = [][]byte{stream[:c1], stream[c1:]}
	}
	conn.avail = len(conn.chunks)
	s := NewConnSniffer(conn, 30*time.Millisecond)
	deadline := s.deadline
	name, err := s.SniffTcp()
	vs.Assert("name found however the hello is cut after the record header", err == nil && name == h.wantName)
	okLedger := len(conn.deadlines) > 0
	for i, d := range conn.deadlines {
		if i%2 == 0 {
			okLedger = okLedger && d.Equal(deadline) // armed with the one absolute deadline
		} else {
			okLedger = okLedger && d.IsZero() // and cleared after the read
		}
	}
	vs.Assert("every sniffing read is bounded by the construction-time deadline, then cleared", okLedger && len(conn.deadlines)%2 == 0)
	got, rerr := c06Drain(s, len(stream), 16)
	vs.Assert("relay reads exactly the client's byte stream", rerr == nil && c06Same(got, stream))
}

// Verif_C06_passthrough: an arbitrary first segment (TLS, HTTP or neither - the bytes are free),
// with the rest of the client's data arriving either in time or only after the sniffing timeout:
// whatever sniffing concludes, it does not panic, invents no name, leaves no deadline armed, and
// the relay afterwards reads exactly the client's byte stream without error.
func Verif_C06_passthrough() {
	n := 6
	if vs.Thorough() {
		n = 6 + vs.Choice("first.len", 2)*3
	}
	first := vs.Bytes("first", n)
	if !vs.Thorough() {
		// quick tier: the first byte is a TLS handshake record, an HTTP method initial, or one other value
		vs.Assume(first[0] == ContentType_HandShake || first[0] == 'G' || first[0] == 'P' || first[0] == 0)
	}
	tail := []byte("tail")
	stream := append(append([]byte{}, first...), tail...)
	conn := &c06Conn{chunks: [][]byte{first, tail}, avail: 1 + vs.Choice("tail.inTime", 2)}
	s := NewConnSniffer(conn, 30*time.Millisecond)
	name, err := s.SniffTcp()
	vs.Assert("no name is invented for a segment too short to carry one", !(err == nil && name != ""))
	vs.Assert("the read deadline is cleared when sniffing hands over", !conn.armed())
	conn.avail = len(conn.chunks) // whatever was late has arrived by the time the relay runs
	got, rerr := c06Drain(s, len(stream), 5)
	vs.Assert("relay reads the client's byte stream without a left-over sniffing error", rerr == nil)
	vs.Assert("relay reads exactly the client's byte stream", c06Same(got, stream))
}

// ---- QUIC Initial: CRYPTO stream reassembly over the decrypted payload ----

func c06Varint(v int) []byte {
	if v < 64 {
		return []byte{byte(v)}
	}
	return []byte{0x40 | byte(v>>8), byte(v)} // two-byte form
}

func c06Crypto(off int, data []byte) []byte {
	f := []byte{quicutils.Quic_FrameType_Crypto}
	f = append(f, c06Varint(off)...)
	f = append(f, c06Varint(len(data))...)
	return append(f, data...)
}

// Verif_C06_quic_frames: a well-formed ClientHello carried in the CRYPTO stream of QUIC Initial
// packets, cut into three frames at any of several points, the frames in any order, separated by
// PING / PADDING, the middle frame possibly re-sent with an overlap, and spread over one or two
// datagrams: reassembly followed by the ClientHello parser yields exactly the name carried.
func Verif_C06_quic_frames() {
	h := c06Build(true)
	hello := h.bytes
	cuts := []int{5, 44, len(hello) - 7}
	if vs.Thorough() {
		cuts = []int{1, 5, 38, 44, len(hello) - 7, len(hello) - 1}
	}
	c1 := cuts[vs.Choice("cut1", len(cuts))]
	c2 := cuts[vs.Choice("cut2", len(cuts))]
	vs.Assume(c1 < c2)
	pieces := [][]byte{c06Crypto(0, hello[:c1]), c06Crypto(c1, hello[c1:c2]), c06Crypto(c2, hello[c2:])}
	if vs.Bool("overlapResend") {
		// the middle piece again, starting one byte early (a retransmission that overlaps piece 0)
		pieces = append(pieces, c06Crypto(c1-1, hello[c1-1:c2]))
	}
	perm := [][]int{{0, 1, 2}, {0, 2, 1}, {1, 0, 2}, {1, 2, 0}, {2, 0, 1}, {2, 1, 0}}[vs.Choice("order", 6)]
	split := 1 + vs.Choice("datagrams", 2) // frames [0,split) in the first datagram when split<3... 1 or 2 frames first
	oneDatagram := vs.Bool("oneDatagram")
	var p1, p2 []byte
	for k, idx := range perm {
		f := pieces[idx]
		dst := &p1
		if !oneDatagram && k >= split {
			dst = &p2
		}
		*dst = append(*dst, f...)
		if k == 0 {
			*dst = append(*dst, quicutils.Quic_FrameType_Ping)
		} else {
			*dst = append(*dst, 0, 0, 0) // PADDING run
		}
	}
	if len(pieces) == 4 {
		p1 = append(p1, pieces[3]...)
	}
	var cryptos []*quicutils.CryptoFrameOffset
	cryptos, err := quicutils.ReassembleCryptos(cryptos, p1)
	vs.Assert("first datagram's frames are accepted", err == nil)
	if !oneDatagram {
		// before the second datagram the hello is incomplete: no name may be reported
		name0, err0 := extractSniFromTls(quicutils.NewLinearLocator(cryptos))
		vs.Assert("no name is reported from an incomplete CRYPTO stream unless it is the right one", err0 != nil || NormalizeDomain(name0) == h.wantName)
		cryptos, err = quicutils.ReassembleCryptos(cryptos, p2)
		vs.Assert("second datagram's frames are accepted", err == nil)
	}
	name, err := extractSniFromTls(quicutils.NewLinearLocator(cryptos))
	vs.Assert("the name of the reassembled hello is found", err == nil && NormalizeDomain(name) == h.wantName)
}

// Verif_C06_quic_arbitrary: two CRYPTO frames with arbitrary stream offsets (gaps, overlaps, the
// second before the first) and arbitrary contents steered into the ClientHello walk: frame
// extraction, reassembly and the walk over the resulting locator never panic or read outside a frame.
func Verif_C06_quic_arbitrary() {
	// quick tier: the second frame overlaps, abuts or duplicates the first; gaps and a first frame
	// that does not start the stream are left to the thorough tier (their queries are slow)
	offA, offB := byte(0), []byte{0, 39, 41}[vs.Choice("offB", 3)]
	if vs.Thorough() {
		offA = []byte{0, 1, 38}[vs.Choice("offA", 3)]
		offB = []byte{0, 39, 41, 42, 45, 63}[vs.Choice("offB.t", 6)]
	}
	dataA := vs.Bytes("dataA", 41)
	dataB := vs.Bytes("dataB", 4+vs.Choice("lenB", 2)*4)
	vs.Assume(dataA[0] == HandShakeType_Hello && dataA[4] == 0x03 && dataA[5] >= 1 && dataA[5] <= 3)
	p := append([]byte{quicutils.Quic_FrameType_Crypto, offA, byte(len(dataA))}, dataA...)
	p = append(p, quicutils.Quic_FrameType_Ping)
	p = append(p, append([]byte{quicutils.Quic_FrameType_Crypto, offB, byte(len(dataB))}, dataB...)...)
	cryptos, err := quicutils.ReassembleCryptos(nil, p)
	vs.Assert("two in-range CRYPTO frames are accepted", err == nil)
	_, _ = extractSniFromTls(quicutils.NewLinearLocator(cryptos))
}

// Verif_C06_quic_datagram_intact: a QUIC Initial datagram with arbitrary contents goes through
// SniffUdp. Header unprotection works in place (modelled: the first byte's low bits and 1-4 packet
// number bytes are XOR-ed with an arbitrary mask; decryption then succeeds or fails): whatever the
// outcome, the datagram that is later replayed to the relay (Sniffer.Data) is byte for byte what
// the client sent.
func Verif_C06_quic_datagram_intact() {
	body := vs.Bytes("protected", 24) // packet number field (4) + at least the 16-byte sample + 4
	d := []byte{0xC0 | (vs.U8("flag.low") & 0x0f)}
	d = append(d, vs.Bytes("version", 4)...)
	d = append(d, 2)
	d = append(d, vs.Bytes("dcid", 2)...)
	d = append(d, 0)  // source connection id length
	d = append(d, 0)  // token length
	d = append(d, 24) // length
	d = append(d, body...)
	orig := append([]byte{}, d...)
	mask := vs.Bytes("hp.mask", 5)
	fails := vs.Bool("decrypt.fails")
	vs.Replace("github.com/daeuniverse/dae/component/sniffing/internal/quicutils.DecryptQuic_",
		func(buf []byte, pnOffset int, blockEnd int, destConnId []byte) (pool.PB, error) {
			buf[0] ^= mask[0] & 0x0f
			pnLen := int(buf[0]&3) + 1
			for i := 0; i < pnLen; i++ {
				buf[pnOffset+i] ^= mask[1+i]
			}
			if fails {
				return nil, io.ErrUnexpectedEOF
			}
			return pool.PB([]byte{quicutils.Quic_FrameType_Ping}), nil
		})
	s := NewPacketSniffer(d, time.Second)
	_, _ = s.SniffUdp()
	data := s.Data()
	ok := len(data) == 1 && len(data[0]) == len(orig)
	for i := 0; ok && i < len(orig); i++ {
		ok = data[0][i] == orig[i]
	}
	vs.Assert("the datagram handed on to the relay is byte for byte what the client sent", ok)
}

// Verif_C06_quic_outcome: what SniffQuic itself concludes once the packet-level work (header
// protection, AEAD - replaced here: the block yields the CRYPTO frames given) is done, for a
// ClientHello with or without a server name whose CRYPTO stream is complete or still lacks its
// tail: the name is found when it is there; an incomplete stream asks for more data; a complete
// hello without a server name is the "not found" outcome - sniffing must not go on asking for more,
// because the caller withholds the client's datagrams for as long as it does.
func Verif_C06_quic_outcome() {
	c06NoSni = vs.Choice("hello.hasServerName", 2) == 0
	h := c06Build(true)
	complete := vs.Choice("cryptoStream.complete", 2) == 1
	data := h.bytes
	if !complete {
		data = data[:len(data)-7]
	}
	frames, err := quicutils.ReassembleCryptos(nil, c06Crypto(0, data))
	vs.Assert("frames accepted", err == nil)
	vs.Replace("github.com/daeuniverse/dae/component/sniffing.sniffQuicBlock",
		func(s *Sniffer, cryptos []*quicutils.CryptoFrameOffset, buf []byte) ([]*quicutils.CryptoFrameOffset, []byte, error) {
			return frames, nil, nil
		})
	s := NewPacketSniffer([]byte{0xc0, 0, 0, 0, 1, 0, 0, 0}, time.Second)
	name, serr := s.SniffQuic()
	switch {
	case !complete:
		vs.Assert("an incomplete CRYPTO stream asks for more data", s.NeedMore() && (serr != nil || NormalizeDomain(name) == h.wantName))
	case c06NoSni:
		vs.Assert("a complete hello without a server name is reported as not found", serr != nil)
		vs.Assert("and sniffing does not keep the client's datagrams waiting for more", !s.NeedMore())
	default:
		vs.Assert("the name of a complete hello is found", serr == nil && NormalizeDomain(name) == h.wantName && !s.NeedMore())
	}
}
