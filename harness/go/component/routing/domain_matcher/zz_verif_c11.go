//go:build verif

package domain_matcher

import (
	"strconv"

	"github.com/daeuniverse/dae/common/consts"
	vs "github.com/daeuniverse/dae/zz_vs"
	ahocorasick "github.com/v2rayA/ahocorasick-domain"
)

// The Aho-Corasick automaton is third-party: it is used through its contract
// (Contains(s) <=> some pattern it was built from is a substring of s).
type c11AC struct{ pats map[*ahocorasick.Matcher][][]byte }

func c11Install(w *c11AC) {
	vs.Replace("github.com/v2rayA/ahocorasick-domain.NewMatcher", func(patterns [][]byte) (*ahocorasick.Matcher, error) {
		m := &ahocorasick.Matcher{}
		w.pats[m] = patterns
		return m, nil
	})
	vs.Replace("(*github.com/v2rayA/ahocorasick-domain.Matcher).Contains", func(m *ahocorasick.Matcher, s []byte) bool {
		hit := false
		for _, p := range w.pats[m] {
			hit = vs.IteBool(c11Contains(string(s), string(p)), true, hit)
		}
		return hit
	})
}

func c11Contains(s, sub string) bool {
	hit := false
	for i := 0; i+len(sub) <= len(s); i++ {
		hit = vs.IteBool(s[i:i+len(sub)] == sub, true, hit)
	}
	return hit
}

func c11HasSuffix(s, suf string) bool {
	return len(s) >= len(suf) && s[len(s)-len(suf):] == suf
}

func c11Lower(s string) string {
	b := []byte(s)
	for i := range b {
		if b[i] >= 'A' && b[i] <= 'Z' {
			b[i] += 'a' - 'A'
		}
	}
	return string(b)
}

// c11Sym: a string of n symbolic bytes over the given alphabet
func c11Sym(name string, n int, alphabet string) string {
	b := vs.Bytes(name, n)
	for i := range b {
		ok := false
		for j := 0; j < len(alphabet); j++ {
			ok = ok || b[i] == alphabet[j]
		}
		vs.Assume(ok)
	}
	return string(b)
}

// c11Matches: the statement's meaning of one pattern of a kind on a (lower-cased, dot-trimmed) name
func c11Matches(kind consts.RoutingDomainKey, pattern, name string) bool {
	switch kind {
	case consts.RoutingDomainKey_Full:
		return name == pattern
	case consts.RoutingDomainKey_Suffix:
		if len(pattern) > 0 && pattern[0] == '.' {
			return c11HasSuffix(name, pattern)
		}
		return name == pattern || c11HasSuffix(name, "."+pattern)
	case consts.RoutingDomainKey_Keyword:
		return c11Contains(name, pattern)
	}
	return false
}

// Verif_C11_kinds: two pattern sets of (possibly different) kinds at bit indices 1 and 33, symbolic
// patterns and a symbolic name in mixed case with an optional trailing dot.
func Verif_C11_kinds() {
	w := &c11AC{pats: map[*ahocorasick.Matcher][][]byte{}}
	c11Install(w)
	kinds := []consts.RoutingDomainKey{consts.RoutingDomainKey_Full, consts.RoutingDomainKey_Suffix, consts.RoutingDomainKey_Keyword}
	m := NewAhocorasickSlimtrie(nil, 64)
	type set struct {
		bit  int
		kind consts.RoutingDomainKey
		pats []string
	}
	// the second set sits in the same 32-bit word of the bitmap as the first, or in the next word
	sets := []*set{{bit: 1}, {bit: []int{33, 9}[vs.Choice("set1.bit", 2)]}}
	for si, s := range sets {
		tag := "set" + strconv.Itoa(si)
		s.kind = kinds[vs.Choice(tag+".kind", 3)]
		if si == 1 && !vs.Thorough() {
			// quick: the second set (bit 33) is one pattern; it is there to show independence
			s.pats = []string{"a.b"}
			m.AddSet(s.bit, s.pats, s.kind)
			continue
		}
		// patterns are chosen from a pool (the succinct structure is built concretely); the
		// queried name below is symbolic
		pool := []string{"a", "a.b", ".b", "ab", "b.a", "a-b"}
		n := 1 + vs.Choice(tag+".patterns", 2)
		for p := 0; p < n; p++ {
			s.pats = append(s.pats, pool[vs.Choice(tag+"p"+strconv.Itoa(p), len(pool))])
		}
		m.AddSet(s.bit, s.pats, s.kind)
	}
	vs.Assert("matcher builds", m.Build() == nil)
	maxName := 3
	alphabet := "abA."
	if vs.Thorough() {
		maxName, alphabet = 4, "abA.-"
	}
	nameLen := 1 + vs.Choice("name.len", maxName)
	name := c11Sym("name", nameLen, alphabet)
	vs.Assume(name[0] != '.' && name[len(name)-1] != '.')
	query := name
	if vs.Bool("trailingDot") {
		query = name + "."
	}
	bm := m.MatchDomainBitmap(query)
	lower := c11Lower(name)
	for _, s := range sets {
		want := false
		for _, p := range s.pats {
			want = vs.IteBool(c11Matches(s.kind, p, lower), true, want)
		}
		got := bm[s.bit/32]&(1<<(uint(s.bit)%32)) != 0
		vs.Assert("a set matches iff one of its patterns does, by its kind", got == want)
	}
	var allowed [2]uint32
	for _, s := range sets {
		allowed[s.bit/32] |= 1 << (uint(s.bit) % 32)
	}
	vs.Assert("no other bit is set", bm[0]&^allowed[0] == 0 && bm[1]&^allowed[1] == 0)
}

// Verif_C11_invalid_skipped: a pattern with a character outside the alphabet is skipped without
// affecting the other patterns of its set or other sets.
func Verif_C11_invalid_skipped() {
	w := &c11AC{pats: map[*ahocorasick.Matcher][][]byte{}}
	c11Install(w)
	kind := []consts.RoutingDomainKey{consts.RoutingDomainKey_Full, consts.RoutingDomainKey_Suffix}[vs.Choice("kind", 2)]
	good := []string{"ab", "a.b", ".b"}[vs.Choice("good", 3)]
	bad := []string{"A" + good, good + "/", "a b", "é"}[vs.Choice("bad", 4)]
	m := NewAhocorasickSlimtrie(nil, 64)
	if vs.Bool("badFirst") {
		m.AddSet(5, []string{bad, good}, kind)
	} else {
		m.AddSet(5, []string{good, bad}, kind)
	}
	m.AddSet(40, []string{good}, kind)
	vs.Assert("matcher builds", m.Build() == nil)
	name := c11Sym("name", 2+vs.Choice("name.extra", 3), "ab.")
	vs.Assume(name[0] != '.' && name[len(name)-1] != '.')
	bm := m.MatchDomainBitmap(name)
	want := c11Matches(kind, good, name)
	vs.Assert("set with a skipped pattern still matches by its valid pattern", (bm[0]&(1<<5) != 0) == want)
	vs.Assert("other sets are unaffected", (bm[1]&(1<<8) != 0) == want)
}

// Verif_C11_letter_case: every letter of the alphabet, queried in upper case (with or without the
// trailing dot), matches the lower-case pattern of each kind that contains it; digits, '-' and '_'
// match as they are.
func Verif_C11_letter_case() {
	w := &c11AC{pats: map[*ahocorasick.Matcher][][]byte{}}
	c11Install(w)
	kind := []consts.RoutingDomainKey{consts.RoutingDomainKey_Full, consts.RoutingDomainKey_Suffix, consts.RoutingDomainKey_Keyword}[vs.Choice("kind", 3)]
	chars := "abcdefghijklmnopqrstuvwxyz09-_"
	ci := vs.Choice("char", len(chars))
	c := chars[ci]
	up := c
	if c >= 'a' && c <= 'z' {
		up = c - 'a' + 'A'
	}
	pattern := "x" + string(c) + ".b"
	query := "X" + string(up) + ".B"
	if vs.Bool("trailingDot") {
		query += "."
	}
	m := NewAhocorasickSlimtrie(nil, 64)
	m.AddSet(3, []string{pattern}, kind)
	vs.Assert("matcher builds", m.Build() == nil)
	bm := m.MatchDomainBitmap(query)
	vs.Assert("a name matches its own pattern whatever the letter case", bm[0] == 1<<3 && bm[1] == 0)
	other := m.MatchDomainBitmap("x" + string(c) + "b.b")
	vs.Assert("and a different name does not", other[0] == 0)
}

// Verif_C07_qname_marker_bytes (registered under C07, whose statement covers "any name"; C11 only
// speaks about names made of letters, digits, '-', '_' and '.'): the matcher keeps '^' and '$' for its own use (start and end of a name inside
// its keys). A queried name that itself contains such a byte - names come from DNS questions and
// sniffed TLS/HTTP hosts, so from the network - must still be judged as the literal string it is:
// a full pattern matches only the identical name, a suffix pattern the name itself or a name ending
// in '.'+pattern.
func Verif_C07_qname_marker_bytes() {
	w := &c11AC{pats: map[*ahocorasick.Matcher][][]byte{}}
	c11Install(w)
	kind := []consts.RoutingDomainKey{consts.RoutingDomainKey_Full, consts.RoutingDomainKey_Suffix}[vs.Choice("kind", 2)]
	pattern := []string{"a", "a.b"}[vs.Choice("pattern", 2)]
	m := NewAhocorasickSlimtrie(nil, 64)
	m.AddSet(2, []string{pattern}, kind)
	vs.Assert("matcher builds", m.Build() == nil)
	name := c11Sym("name", len(pattern)+1+vs.Choice("name.extra", 2), "ab.^$")
	vs.Assume(name[0] != '.' && name[len(name)-1] != '.')
	bm := m.MatchDomainBitmap(name)
	vs.Assert("a name containing the matcher's own marker bytes is matched as the string it is", (bm[0]&(1<<2) != 0) == c11Matches(kind, pattern, name))
}
