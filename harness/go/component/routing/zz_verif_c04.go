//go:build verif

package routing

import (
	"errors"
	"strconv"
	"strings"

	"github.com/daeuniverse/dae/common/assets"
	"github.com/daeuniverse/dae/pkg/config_parser"
	"github.com/daeuniverse/dae/pkg/geodata"
	vs "github.com/daeuniverse/dae/zz_vs"
	"github.com/sirupsen/logrus"
)

// ---- meaning of a rule list, evaluated on the AST under one valuation of the atoms ----

var c04FuncID = map[string]uint64{"ip": 1, "dip": 1, "port": 2, "dport": 2, "domain": 3, "qname": 4, "sip": 5, "l4proto": 6}
var c04ValID = map[string]uint64{"v1": 1, "v2": 2, "v3": 3, "10.0.0.0/8": 4, "fc00::/7": 5, "80": 6, "geo:a": 7, "geo:b": 8}

// key identity after the documented aliases: for domain(), "" and "domain" mean suffix and
// "contains" means keyword; everywhere else the key is taken literally
func c04KeyID(fn string, key string, alias bool) uint64 {
	if fn == "domain" && alias {
		switch key {
		case "", "domain", "suffix":
			return 1
		case "contains", "keyword":
			return 2
		}
	}
	switch key {
	case "":
		return 10
	case "suffix":
		return 1
	case "keyword":
		return 2
	case "full":
		return 3
	case "regex":
		return 4
	case "domain":
		return 11
	case "contains":
		return 12
	}
	return 99
}

// the geodata "files": what each geosite/geoip code expands to (loader stub below returns the same)
var c04Geo = map[string][]*config_parser.Param{
	"a": {{Key: "suffix", Val: "v1"}, {Key: "full", Val: "v2"}},
	"b": {{Key: "suffix", Val: "v1"}},
	"c": nil,
}

func c04Atom(fn string, p *config_parser.Param, alias bool) bool {
	if p.Key == "geosite" || p.Key == "geoip" {
		any := false
		for _, q := range c04Geo[p.Val] {
			any = vs.IteBool(c04Atom(fn, q, alias), true, any)
		}
		return any
	}
	return vs.UFBool("atom", c04FuncID[fn], c04KeyID(fn, p.Key, alias), c04ValID[p.Val])
}

// c04Decide: index of the outbound spelling of the first rule all of whose conditions hold
// (a condition holds iff some value matches, xor its negation); 0 = no rule (fallback).
// Written without short-circuit control flow so that it is one term per rule list.
func c04Decide(rules []*config_parser.RoutingRule, outID map[string]uint64, alias bool) uint64 {
	var res uint64
	decided := false
	for _, r := range rules {
		all := true
		for _, f := range r.AndFunctions {
			any := false
			for _, p := range f.Params {
				a := c04Atom(f.Name, p, alias)
				any = vs.IteBool(a, true, any)
			}
			all = vs.IteBool(any == f.Not, false, all)
		}
		take := vs.IteBool(decided, false, all)
		res = vs.IteU64(take, outID[r.Outbound.String(true, false, true)], res)
		decided = vs.IteBool(take, true, decided)
	}
	return res
}

var c04Outbounds = []config_parser.Function{
	{Name: "proxy"},
	{Name: "proxy", Params: []*config_parser.Param{{Key: "mark", Val: "1"}}},
	{Name: "direct"},
}

func c04Install() {
	vs.Replace("(*github.com/daeuniverse/dae/component/routing.DatReaderOptimizer).loadGeoSite",
		func(o *DatReaderOptimizer, filename string, code string) ([]*config_parser.Param, error) {
			return cloneParams(c04Geo[code]), nil
		})
	vs.Replace("(*github.com/daeuniverse/dae/component/routing.DatReaderOptimizer).loadGeoIp",
		func(o *DatReaderOptimizer, filename string, code string) ([]*config_parser.Param, error) {
			return cloneParams(c04Geo[code]), nil
		})
}

type c04KV struct{ k, v string }

// c04Rule builds one rule with the given number of conditions; each condition's function name is
// chosen from fnames, its values (<= maxParams) from the (key, value) pool of that function.
func c04Rule(tag string, conds int, maxParams int, fnames []string, pool map[string][]c04KV) *config_parser.RoutingRule {
	// the first rule's outbound is fixed (the spellings are interchangeable); later rules pick
	// the same spelling, the same group with a parameter, or another group
	r := &config_parser.RoutingRule{Outbound: c04Outbounds[0]}
	if tag != "r0" {
		r.Outbound = c04Outbounds[vs.Choice(tag+".outbound", len(c04Outbounds))]
	}
	for c := 0; c < conds; c++ {
		ctag := tag + "c" + strconv.Itoa(c)
		f := &config_parser.Function{Name: fnames[vs.Choice(ctag+".fn", len(fnames))], Not: vs.Bool(ctag + ".not")}
		np := 1 + vs.Choice(ctag+".params", maxParams)
		kvs := pool[f.Name]
		for q := 0; q < np; q++ {
			kv := kvs[vs.Choice(ctag+"p"+strconv.Itoa(q)+".kv", len(kvs))]
			f.Params = append(f.Params, &config_parser.Param{Key: kv.k, Val: kv.v})
		}
		r.AndFunctions = append(r.AndFunctions, f)
	}
	return r
}

func c04OutIDs() map[string]uint64 {
	m := map[string]uint64{}
	for i := range c04Outbounds {
		m[c04Outbounds[i].String(true, false, true)] = uint64(i + 1)
	}
	return m
}

var c04IPPool = map[string][]c04KV{
	"dip": {{"", "v1"}, {"", "v2"}, {"geoip", "a"}},
	"ip":  {{"", "v1"}, {"", "v2"}, {"geoip", "b"}},
	"sip": {{"", "v1"}, {"", "v2"}},
}

var c04DomainPool = map[string][]c04KV{
	"domain": {{"", "v1"}, {"domain", "v1"}, {"suffix", "v1"}, {"contains", "v1"}, {"keyword", "v1"}, {"geosite", "a"}},
	"qname":  {{"suffix", "v1"}, {"suffix", "v2"}, {"keyword", "v1"}, {"full", "v1"}, {"geosite", "a"}},
	"dip":    {{"", "v1"}, {"", "v2"}},
}

func c04Shape(tag string, fn2 []string, fn1 []string, pool map[string][]c04KV) []*config_parser.RoutingRule {
	// shapes: 0 = two neighbouring single-condition rules with <=2 values each (the merge case);
	// 1 = a two-condition rule followed by a single-condition rule (condition sorting);
	// thorough adds 2 = three single-condition rules
	n := 2
	if vs.Thorough() {
		n = 3
	}
	switch vs.Choice(tag+".shape", n) {
	case 0:
		return []*config_parser.RoutingRule{c04Rule("r0", 1, 2, fn1, pool), c04Rule("r1", 1, 2, fn1, pool)}
	case 1:
		return []*config_parser.RoutingRule{c04Rule("r0", 2, 1, fn2, pool), c04Rule("r1", 1, 1, fn2, pool)}
	}
	return []*config_parser.RoutingRule{c04Rule("r0", 1, 2, fn1, pool), c04Rule("r1", 1, 1, fn1, pool), c04Rule("r2", 1, 2, fn1, pool)}
}

// Verif_C04_routing: the traffic-routing pipeline (alias, geodata, merge/sort, dedup) on
// address conditions, where dip/ip are aliases.
func Verif_C04_routing() {
	c04Install()
	rules := c04Shape("ip", []string{"dip", "ip", "sip"}, []string{"dip", "ip"}, c04IPPool)
	out, err := ApplyRulesOptimizers(rules, &AliasOptimizer{}, &DatReaderOptimizer{}, &MergeAndSortRulesOptimizer{}, &DeduplicateParamsOptimizer{})
	vs.Assert("normalisation succeeds", err == nil)
	ids := c04OutIDs()
	vs.Assert("normalised rules decide as written", c04Decide(out, ids, true) == c04Decide(rules, ids, true))
}

// Verif_C04_domain: the same pipeline on domain conditions with every key spelling.
func Verif_C04_domain() {
	c04Install()
	rules := c04Shape("dom", []string{"domain", "dip"}, []string{"domain"}, c04DomainPool)
	out, err := ApplyRulesOptimizers(rules, &AliasOptimizer{}, &DatReaderOptimizer{}, &MergeAndSortRulesOptimizer{}, &DeduplicateParamsOptimizer{})
	vs.Assert("normalisation succeeds", err == nil)
	ids := c04OutIDs()
	vs.Assert("normalised rules decide as written", c04Decide(out, ids, true) == c04Decide(rules, ids, true))
}

// Verif_C04_dns: the DNS request/response pipelines (no alias rewriting).
func Verif_C04_dns() {
	c04Install()
	rules := c04Shape("dns", []string{"qname", "dip"}, []string{"qname"}, c04DomainPool)
	out, err := ApplyRulesOptimizers(rules, &DatReaderOptimizer{}, &MergeAndSortRulesOptimizer{}, &DeduplicateParamsOptimizer{})
	vs.Assert("normalisation succeeds", err == nil)
	ids := c04OutIDs()
	vs.Assert("normalised rules decide as written", c04Decide(out, ids, false) == c04Decide(rules, ids, false))
}


// Verif_C04_geosite_expand: the real geosite expansion of the DatReaderOptimizer (attribute filter
// and the expansion cache), with the file layer replaced: the "file" holds one code with four
// entries, two of them tagged. Three look-ups in arbitrary order among shop, shop@ads, shop@cn,
// SHOP@ADS on one optimizer: every look-up yields exactly the entries of the code that carry the
// attribute asked for (all of them when none is asked for) - whatever was looked up before.
func Verif_C04_geosite_expand() {
	site := &geodata.GeoSite{CountryCode: "SHOP", Domain: []*geodata.Domain{
		{Type: geodata.Domain_RootDomain, Value: "shop.example"},
		{Type: geodata.Domain_Full, Value: "ads.shop.example", Attribute: []*geodata.Domain_Attribute{{Key: "ads"}}},
		{Type: geodata.Domain_Plain, Value: "shopcn", Attribute: []*geodata.Domain_Attribute{{Key: "cn"}, {Key: "ADS"}}},
		{Type: geodata.Domain_RootDomain, Value: "shop.cn", Attribute: []*geodata.Domain_Attribute{{Key: "cn"}}},
	}}
	loads := 0
	vs.Replace("(*github.com/daeuniverse/dae/common/assets.LocationFinder).GetLocationAsset",
		func(c *assets.LocationFinder, log *logrus.Logger, filename string) (string, error) { return "/usr/share/dae/" + filename, nil })
	vs.Replace("github.com/daeuniverse/dae/pkg/geodata.UnmarshalGeoSite",
		func(log *logrus.Logger, filepath, code string) (*geodata.GeoSite, error) {
			loads++
			if !strings.EqualFold(code, "shop") {
				return nil, errors.New("code not found")
			}
			return site, nil
		})
	o := &DatReaderOptimizer{}
	codes := []string{"shop", "shop@ads", "shop@cn", "SHOP@ADS"}
	want := map[string][]string{
		"shop":     {"suffix:shop.example", "full:ads.shop.example", "keyword:shopcn", "suffix:shop.cn"},
		"shop@ads": {"full:ads.shop.example", "keyword:shopcn"},
		"shop@cn":  {"keyword:shopcn", "suffix:shop.cn"},
		"SHOP@ADS": {"full:ads.shop.example", "keyword:shopcn"},
	}
	for i := 0; i < 3; i++ {
		code := codes[vs.Choice("lookup"+strconv.Itoa(i), len(codes))]
		params, err := o.loadGeoSite("geosite", code)
		vs.Assert("the look-up succeeds", err == nil)
		var got []string
		for _, p := range params {
			got = append(got, p.Key+":"+p.Val)
		}
		w := want[code]
		same := len(got) == len(w)
		for j := 0; j < len(w) && j < len(got); j++ {
			same = same && got[j] == w[j]
		}
		vs.Assert("a geosite reference expands to the entries carrying its attribute, whatever was expanded before", same)
	}
	vs.Assert("the file is read at most once per look-up", loads <= 3)
}
