//go:build verif

package routing

import (
	"net/netip"

	"github.com/daeuniverse/dae/common/consts"
	"github.com/daeuniverse/dae/pkg/config_parser"
	"github.com/sirupsen/logrus"
	vs "github.com/daeuniverse/dae/zz_vs"
)

// Verif_C01_value_parsers: the step from a condition's written values to the typed values the
// matcher compares with (the C01 matcher harnesses start from typed values). Process names: the
// first 16 bytes of the written name, zero-padded (arbitrary name bytes, lengths around the limit);
// port ranges "a" and "a-b"; l4proto and ipversion words; MAC addresses; prefixes with the default
// length of their family.
func Verif_C01_value_parsers() {
	lg := logrus.New()
	lg.SetLevel(logrus.PanicLevel)
	f := &config_parser.Function{Name: "x"}
	switch vs.Choice("kind", 5) {
	case 0:
		n := []int{1, 15, 16, 17, 20}[vs.Choice("pname.len", 5)]
		name := vs.Bytes("pname", n)
		for i := range name {
			vs.Assume(name[i] != 0)
		}
		var got [][consts.TaskCommLen]byte
		err := ProcessNameParserFactory(func(_ *config_parser.Function, v [][consts.TaskCommLen]byte, _ *Outbound) error { got = v; return nil })(lg, f, "", []string{string(name)}, nil)
		vs.Assert("process name parses", err == nil && len(got) == 1)
		ok := true
		for i := 0; i < consts.TaskCommLen; i++ {
			want := byte(0)
			if i < n {
				want = name[i]
			}
			ok = ok && got[0][i] == want
		}
		vs.Assert("a process name is compared on its first 16 bytes, zero-padded", ok)
	case 1:
		var got [][2]uint16
		err := PortRangeParserFactory(func(_ *config_parser.Function, v [][2]uint16, _ *Outbound) error { got = v; return nil })(lg, f, "", []string{"443", "8000-8100", "0-65535"}, nil)
		vs.Assert("port ranges parse to their bounds", err == nil && len(got) == 3 && got[0] == [2]uint16{443, 443} && got[1] == [2]uint16{8000, 8100} && got[2] == [2]uint16{0, 65535})
		err = PortRangeParserFactory(func(_ *config_parser.Function, v [][2]uint16, _ *Outbound) error { return nil })(lg, f, "", []string{"70000"}, nil)
		vs.Assert("a port beyond 65535 is an error", err != nil)
	case 2:
		var l4 consts.L4ProtoType
		words := [][]string{{"tcp"}, {"udp"}, {"tcp", "udp"}}
		k := vs.Choice("l4.words", 3)
		_ = L4ProtoParserFactory(func(_ *config_parser.Function, v consts.L4ProtoType, _ *Outbound) error { l4 = v; return nil })(lg, f, "", words[k], nil)
		want := []consts.L4ProtoType{consts.L4ProtoType_TCP, consts.L4ProtoType_UDP, consts.L4ProtoType_TCP | consts.L4ProtoType_UDP}[k]
		vs.Assert("l4proto words map to their bits", l4 == want)
		var ipv consts.IpVersionType
		_ = IpVersionParserFactory(func(_ *config_parser.Function, v consts.IpVersionType, _ *Outbound) error { ipv = v; return nil })(lg, f, "", []string{"4", "6"}, nil)
		vs.Assert("ipversion words map to their bits", ipv == consts.IpVersion_4|consts.IpVersion_6)
	case 3:
		var got [][6]byte
		err := MacParserFactory(func(_ *config_parser.Function, v [][6]byte, _ *Outbound) error { got = v; return nil })(lg, f, "", []string{"02:42:ac:11:00:02"}, nil)
		vs.Assert("a MAC address parses to its six bytes", err == nil && len(got) == 1 && got[0] == [6]byte{0x02, 0x42, 0xac, 0x11, 0x00, 0x02})
	case 4:
		var got []netip.Prefix
		err := IpParserFactory(func(_ *config_parser.Function, v []netip.Prefix, _ *Outbound) error { got = v; return nil })(lg, f, "", []string{"10.0.0.0/8", "192.0.2.1", "2001:db8::1", "2001:db8::/32"}, nil)
		vs.Assert("prefixes parse, bare addresses get their family's full length", err == nil && len(got) == 4 &&
			got[0] == netip.MustParsePrefix("10.0.0.0/8") && got[1] == netip.MustParsePrefix("192.0.2.1/32") &&
			got[2] == netip.MustParsePrefix("2001:db8::1/128") && got[3] == netip.MustParsePrefix("2001:db8::/32"))
	}
}
