//go:build verif

package dialer

import (
	"strconv"
	"time"

	"github.com/daeuniverse/dae/common/consts"
	vs "github.com/daeuniverse/dae/zz_vs"
)

type c15World struct {
	lat  map[*Dialer]time.Duration
	has  map[*Dialer]bool
	cbUp int
	cbDn int
}

func c15Install(w *c15World) {
	vs.Replace("(*github.com/daeuniverse/dae/component/outbound/dialer.Dialer).snapshotLatencyForPolicy",
		func(d *Dialer, typ *NetworkType, policy consts.DialerSelectionPolicy) (time.Duration, bool) {
			if !w.has[d] {
				return 0, false
			}
			return w.lat[d], true
		})
}

// c15History runs a history of latency / alive notifications on one min-latency AliveDialerSet
// from its construction; after every event the set's answers are compared with a ghost model.
func c15History(n, events int) {
	w := &c15World{lat: map[*Dialer]time.Duration{}, has: map[*Dialer]bool{}}
	c15Install(w)
	policy := consts.DialerSelectionPolicy_MinLastLatency
	tol := time.Duration(vs.IntRange("tolerance", 0, 7_200_000_000_000))
	ds := make([]*Dialer, n)
	annos := make([]*Annotation, n)
	off := make([]time.Duration, n)
	for i := range ds {
		ds[i] = &Dialer{property: &Property{}}
		off[i] = time.Duration(vs.IntRange("offset"+strconv.Itoa(i), -10_000_000_000, 7_200_000_000_000))
		annos[i] = &Annotation{AddLatency: off[i]}
	}
	a := NewAliveDialerSet(nil, "g", &NetworkType{}, tol, policy, ds, annos, func(alive bool) {}, false)
	aliveG := make([]bool, n)
	idx := func(d *Dialer) int {
		for i := range ds {
			if ds[i] == d {
				return i
			}
		}
		return -1
	}
	sl := func(i int) time.Duration { // sorting latency as the statement defines it
		if !w.has[ds[i]] {
			return 0
		}
		return w.lat[ds[i]] + off[i]
	}
	var prevBest *Dialer
	for e := 0; e < events; e++ {
		tag := "ev" + strconv.Itoa(e)
		which := 0
		if e > 0 { // nodes are interchangeable: the first event is on node 0 without loss of generality
			which = vs.Choice(tag+".node", n)
		}
		alive := vs.Bool(tag + ".alive")
		if vs.Bool(tag + ".measured") {
			w.has[ds[which]] = true // once measured, a node keeps having a measurement
		}
		w.lat[ds[which]] = time.Duration(vs.IntRange(tag+".latency", 0, 10_000_000_000))

		a.NotifyLatencyChange(ds[which], alive)
		aliveG[which] = alive

		nAlive := 0
		for i := range aliveG {
			if aliveG[i] {
				nAlive++
			}
		}
		vs.Assert("alive count", a.Len() == nAlive)
		best, bestLat := a.GetMinLatency(nil)
		if nAlive == 0 {
			vs.Assert("min: nothing when none alive", best == nil)
		} else {
			vs.Assert("min returns an alive node", best != nil && aliveG[idx(best)])
			bi := idx(best)
			if w.has[best] {
				vs.Assert("reported latency is the node's latency plus offset", bestLat == sl(bi))
				for i := range ds {
					if i != bi && aliveG[i] && w.has[ds[i]] {
						vs.Assert("no measured alive node beats the choice by the tolerance or more", !(sl(i)+tol <= sl(bi)) || sl(i) == sl(bi))
					}
				}
			}
			if prevBest != nil && best != prevBest && aliveG[idx(prevBest)] && w.has[prevBest] {
				pb := idx(prevBest)
				vs.Assert("choice changes only for a candidate better by the tolerance (or merely better below it)",
					sl(bi)+tol <= sl(pb) || (sl(pb) < tol && sl(bi) <= sl(pb)))
			}
		}
		prevBest = best
		if e == events-1 {
			// the excluded node is avoided whenever another alive node exists
			ex := ds[vs.Choice("excluded", n)]
			bx, _ := a.GetMinLatency(ex)
			if bx != nil {
				vs.Assert("min with exclusion returns an alive, non-excluded node", bx != ex && aliveG[idx(bx)])
			} else {
				vs.Assert("min with exclusion gives up only when no other node is alive", nAlive == 0 || (nAlive == 1 && aliveG[idx(ex)]))
			}
		}
	}
}

func Verif_C15_min_2nodes() {
	if vs.Thorough() {
		c15History(2, 5)
	} else {
		c15History(2, 3)
	}
}

func Verif_C15_min_3nodes() {
	if vs.Thorough() {
		c15History(3, 4)
	} else {
		c15History(3, 2)
	}
}

// Verif_C15_random: the random policy returns only alive, non-excluded nodes (random = arbitrary).
func Verif_C15_random() {
	n := 3
	w := &c15World{lat: map[*Dialer]time.Duration{}, has: map[*Dialer]bool{}}
	c15Install(w)
	ds := make([]*Dialer, n)
	annos := make([]*Annotation, n)
	for i := range ds {
		ds[i] = &Dialer{property: &Property{}}
		annos[i] = &Annotation{}
	}
	a := NewAliveDialerSet(nil, "g", &NetworkType{}, 0, consts.DialerSelectionPolicy_Random, ds, annos, func(alive bool) {}, false)
	aliveG := make([]bool, n)
	for e := 0; e < 3; e++ {
		which := vs.Choice("ev"+strconv.Itoa(e)+".node", n)
		alive := vs.Bool("ev" + strconv.Itoa(e) + ".alive")
		a.NotifyLatencyChange(ds[which], alive)
		aliveG[which] = alive
	}
	idx := func(d *Dialer) int {
		for i := range ds {
			if ds[i] == d {
				return i
			}
		}
		return -1
	}
	nAlive := 0
	for i := range aliveG {
		if aliveG[i] {
			nAlive++
		}
	}
	vs.Assert("alive count", a.Len() == nAlive)
	r := a.GetRandExcluded(nil)
	if nAlive == 0 {
		vs.Assert("random: nothing when none alive", r == nil)
	} else {
		vs.Assert("random returns an alive node", r != nil && aliveG[idx(r)])
	}
	ex := ds[vs.Choice("excluded", n)]
	rx := a.GetRandExcluded(ex)
	if rx != nil {
		vs.Assert("random never returns the excluded node", rx != ex && aliveG[idx(rx)])
	} else {
		vs.Assert("random gives up only when no other node is alive", nAlive == 0 || (nAlive == 1 && aliveG[idx(ex)]))
	}
	best, _ := a.GetMinLatency(nil)
	_ = best
}

// Verif_C15_policy_switch: a group that starts under the random policy (or a min policy) is
// switched at run time to a min-latency policy after its nodes were measured: the choice made
// right after the switch obeys the same rule as ever - latency plus the node's configured offset,
// no alive measured node better by the tolerance or more.
func Verif_C15_policy_switch() {
	w := &c15World{lat: map[*Dialer]time.Duration{}, has: map[*Dialer]bool{}}
	c15Install(w)
	n := 2
	tol := time.Duration(vs.IntRange("tolerance", 0, 7_200_000_000_000))
	ds := make([]*Dialer, n)
	annos := make([]*Annotation, n)
	off := make([]time.Duration, n)
	for i := range ds {
		ds[i] = &Dialer{property: &Property{}}
		off[i] = time.Duration(vs.IntRange("offset"+strconv.Itoa(i), -10_000_000_000, 7_200_000_000_000))
		annos[i] = &Annotation{AddLatency: off[i]}
	}
	from := []consts.DialerSelectionPolicy{consts.DialerSelectionPolicy_Random, consts.DialerSelectionPolicy_MinAverage10Latencies}[vs.Choice("startPolicy", 2)]
	a := NewAliveDialerSet(nil, "g", &NetworkType{}, tol, from, ds, annos, func(alive bool) {}, false)
	aliveG := make([]bool, n)
	for i := range ds {
		w.has[ds[i]] = vs.Bool("node" + strconv.Itoa(i) + ".measured")
		w.lat[ds[i]] = time.Duration(vs.IntRange("node"+strconv.Itoa(i)+".latency", 0, 10_000_000_000))
		aliveG[i] = vs.Bool("node" + strconv.Itoa(i) + ".alive")
		a.NotifyLatencyChange(ds[i], aliveG[i])
	}
	a.SetSelectionPolicy(consts.DialerSelectionPolicy_MinLastLatency)
	sl := func(i int) time.Duration {
		if !w.has[ds[i]] {
			return 0
		}
		return w.lat[ds[i]] + off[i]
	}
	best, bestLat := a.GetMinLatency(nil)
	if !aliveG[0] && !aliveG[1] {
		vs.Assert("min: nothing when none alive", best == nil)
		return
	}
	bi := 0
	if best == ds[1] {
		bi = 1
	}
	vs.Assert("min returns an alive node", best != nil && aliveG[bi])
	if w.has[best] {
		vs.Assert("reported latency is the node's latency plus offset", bestLat == sl(bi))
		o := 1 - bi
		if aliveG[o] && w.has[ds[o]] {
			vs.Assert("no measured alive node beats the choice by the tolerance or more", !(sl(o)+tol <= sl(bi)) || sl(o) == sl(bi))
		}
	}
}
