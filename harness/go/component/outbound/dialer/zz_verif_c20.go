//go:build verif

package dialer

import (
	"strconv"
	"time"

	vs "github.com/daeuniverse/dae/zz_vs"
)

// Verif_C20_suppression: the reload-time muting of node-failure reports is a counted scope: after any
// sequence of begin / end calls the counter equals the scopes still open (an unmatched end is
// ignored, the counter never goes negative), reports are muted while a scope is open, and once the
// last scope has ended the muting lasts at most the quiesce period.
func Verif_C20_suppression() {
	reloadProxyFailureSuppression.Store(0)
	reloadProxyFailureSuppressUntil.Store(0)
	depth := 0
	n := 4
	if vs.Thorough() {
		n = 6
	}
	for i := 0; i < n; i++ {
		if vs.Bool("begin" + strconv.Itoa(i)) {
			BeginReloadProxyFailureSuppression()
			depth++
		} else {
			EndReloadProxyFailureSuppression()
			if depth > 0 {
				depth--
			}
		}
		vs.Assert("counter equals the scopes still open", int(reloadProxyFailureSuppression.Load()) == depth)
		if depth > 0 {
			vs.Assert("reports are muted while a reload scope is open", proxyFailureSuppressedForReload())
		}
	}
	for depth > 0 {
		EndReloadProxyFailureSuppression()
		depth--
	}
	vs.Assert("all scopes closed", reloadProxyFailureSuppression.Load() == 0)
	after := time.Now()
	until := reloadProxyFailureSuppressUntil.Load()
	vs.Assert("after the last scope the muting lasts at most the quiesce period", until <= after.Add(reloadFailureQuiesce).UnixNano())
	later := after.Add(reloadFailureQuiesce + time.Nanosecond)
	_ = later
	if time.Now().UnixNano() >= until {
		vs.Assert("and is lifted afterwards", !proxyFailureSuppressedForReload())
	}
}

// Verif_C20_suppression_threads: two reloads' scopes ending concurrently (the release goroutine of a
// finished reload and the worker of the next): under every schedule with up to two preemptions the
// counter returns to zero.
func Verif_C20_suppression_threads() {
	vs.Schedules(2)
	reloadProxyFailureSuppression.Store(0)
	reloadProxyFailureSuppressUntil.Store(0)
	BeginReloadProxyFailureSuppression()
	BeginReloadProxyFailureSuppression()
	go EndReloadProxyFailureSuppression()
	go EndReloadProxyFailureSuppression()
	go func() { _ = proxyFailureSuppressedForReload() }()
	vs.Join()
	vs.Assert("both scopes released exactly once each", reloadProxyFailureSuppression.Load() == 0)
	EndReloadProxyFailureSuppression()
	vs.Assert("an extra end does not underflow", reloadProxyFailureSuppression.Load() == 0)
}
