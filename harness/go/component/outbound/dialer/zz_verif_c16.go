//go:build verif

package dialer

import (
	"context"
	"errors"
	"strconv"
	"time"

	"github.com/daeuniverse/dae/common/consts"
	"github.com/sirupsen/logrus"
	vs "github.com/daeuniverse/dae/zz_vs"
)

// c16NewDialer builds a dialer the way NewDialerContext does, without probe goroutines,
// contexts or the recovery back-off machinery (outside this property).
func c16NewDialer() *Dialer {
	var collections [8]*collection
	for _, i := range []int{IdxDnsUdp4, IdxDnsUdp6, IdxTcp4, IdxTcp6, IdxUdp4, IdxUdp6} {
		collections[i] = newCollection()
	}
	collections[IdxDnsTcp4] = collections[IdxTcp4]
	collections[IdxDnsTcp6] = collections[IdxTcp6]
	return &Dialer{GlobalOption: &GlobalOption{}, property: &Property{}, collections: collections}
}

var errC16 = errors.New("dial failed")

type c16Mon struct {
	alive    bool
	cfProbe  int
	cfTraf   int
	thrProbe int
	thrTraf  int
	dataUdp  bool
}

// c16Types: the six health domains plus TCP-DNS, which shares TCP's state.
func c16Types() []*NetworkType {
	keys := StandardHealthKeys()
	var ts []*NetworkType
	for _, k := range keys {
		ts = append(ts, k.NetworkType())
	}
	ts = append(ts, &NetworkType{L4Proto: consts.L4ProtoStr_TCP, IpVersion: consts.IpVersionStr_4, IsDns: true})
	return ts
}

// Verif_C16_thresholds: one node in a one-node latency-policy group; counters start at arbitrary
// values below the thresholds (as that many consecutive failures would leave them), then a
// history of arbitrary health events. After each event: alive state vs. the documented
// thresholds, transition callbacks on edges only, the group's view, and the kernel bit.
func Verif_C16_thresholds() {
	events := 3
	if vs.Thorough() {
		events = 4
	}
	vs.Replace("(*github.com/daeuniverse/dae/component/outbound/dialer.Dialer).NotifyHealthCheckResult",
		func(d *Dialer, typ *NetworkType, ok bool, isRevival bool) {})
	types := c16Types()
	ti := vs.Choice("domain", len(types))
	typ := types[ti]
	idx := typ.Index()
	d := c16NewDialer()
	transitions := 0
	lastTransition := true
	d.aliveTransitionCallbacks = append(d.aliveTransitionCallbacks, func(nt *NetworkType, alive bool) {
		transitions++
		lastTransition = alive
	})
	// group wiring as NewDialerGroup does it: a min-latency alive set per domain, registered
	// with the node, seeded with the node's alive state; the group reports "alive" at init
	bit := true // kernel connectivity bit of the group for this domain
	setType := *typ
	setType.IsDns = typ.IsDns && typ.L4Proto == consts.L4ProtoStr_UDP
	set := NewAliveDialerSet(nil, "g", &setType, 0, consts.DialerSelectionPolicy_MinLastLatency, []*Dialer{d}, []*Annotation{{}},
		func(alive bool) { bit = alive }, false)
	d.RegisterAliveDialerSet(set)
	set.NotifyLatencyChange(d, d.MustGetAlive(&setType))

	m := &c16Mon{alive: true, thrProbe: 1, thrTraf: 10}
	if typ.L4Proto == consts.L4ProtoStr_UDP {
		m.thrProbe, m.thrTraf = 3, 50
		m.dataUdp = typ.EffectiveUdpHealthDomain() == UdpHealthDomainData
	}
	// arbitrary number of consecutive failures so far, below the thresholds
	m.cfProbe = vs.IntRange("consecutiveProbeFailures", 0, m.thrProbe-1)
	m.cfTraf = vs.IntRange("consecutiveTrafficFailures", 0, m.thrTraf-1)
	d.failCount[idx] = m.cfProbe
	d.trafficFailCount[idx].Store(int32(m.cfTraf))

	for e := 0; e < events; e++ {
		kind := vs.Choice("ev"+strconv.Itoa(e)+".kind", 7)
		before := m.alive
		t0 := transitions
		switch kind {
		case 0: // successful probe, as Dialer.check reports it
			upd, _ := d.markAvailable(typ, time.Duration(vs.IntRange("ev"+strconv.Itoa(e)+".latency", 1, 5_000_000_000)))
			d.informDialerGroupUpdate(upd)
			m.alive, m.cfProbe, m.cfTraf = true, 0, 0
		case 1: // failed probe
			d.informDialerGroupUpdate(d.markUnavailable(typ))
			m.cfProbe++
			if m.cfProbe >= m.thrProbe {
				m.alive = false
			}
		case 2: // traffic failure
			d.ReportUnavailable(typ, errC16)
			m.cfTraf++
			if m.cfTraf >= m.thrTraf {
				m.alive = false
			}
		case 3: // failure reported with probe semantics (dial-time)
			d.ReportUnavailableTransactional(typ, errC16)
			m.cfProbe++
			if m.cfProbe >= m.thrProbe {
				m.alive = false
			}
		case 4: // forced report
			d.ReportUnavailableForced(typ, errC16)
			m.alive = false
			m.cfProbe, m.cfTraf = m.thrProbe, m.thrTraf
		case 5: // successful traffic
			d.ReportAvailableTraffic(typ)
			m.cfTraf = 0
			if m.dataUdp && !m.alive {
				m.alive, m.cfProbe = true, 0
			}
		case 6: // cancellation / teardown: never counts
			if vs.Bool("ev" + strconv.Itoa(e) + ".traffic") {
				d.ReportUnavailable(typ, context.Canceled)
			} else {
				d.ReportUnavailableTransactional(typ, context.Canceled)
			}
		}
		vs.Assert("alive follows the documented thresholds", d.MustGetAlive(typ) == m.alive)
		if before != m.alive {
			vs.Assert("exactly one transition callback per actual transition", transitions == t0+1 && lastTransition == m.alive)
		} else {
			vs.Assert("no transition callback without a transition", transitions == t0)
		}
		wantLen := 0
		if m.alive {
			wantLen = 1
		}
		vs.Assert("the group sees the node's state after the event", set.Len() == wantLen)
		vs.Assert("kernel bit: cleared when the last alive node dies, set again when one revives", bit == m.alive)
	}
}

// Verif_C16_shared_node: a node shared by two groups (a latency-policy one and a random one):
// after every event both groups see the node's state, and the latency group's kernel bit follows.
func Verif_C16_shared_node() {
	vs.Replace("(*github.com/daeuniverse/dae/component/outbound/dialer.Dialer).NotifyHealthCheckResult",
		func(d *Dialer, typ *NetworkType, ok bool, isRevival bool) {})
	types := c16Types()
	typ := types[vs.Choice("domain", 6)]
	d, other := c16NewDialer(), c16NewDialer()
	setType := *typ
	bit := true
	setA := NewAliveDialerSet(nil, "latency-group", &setType, 0, consts.DialerSelectionPolicy_MinLastLatency, []*Dialer{d}, []*Annotation{{}},
		func(alive bool) { bit = alive }, false)
	setB := NewAliveDialerSet(nil, "random-group", &setType, 0, consts.DialerSelectionPolicy_Random, []*Dialer{other, d}, []*Annotation{{}, {}},
		func(alive bool) {}, false)
	for _, s := range []*AliveDialerSet{setA, setB} {
		d.RegisterAliveDialerSet(s)
		s.NotifyLatencyChange(d, d.MustGetAlive(&setType))
	}
	other.RegisterAliveDialerSet(setB)
	setB.NotifyLatencyChange(other, true)
	for e := 0; e < 3; e++ {
		switch vs.Choice("ev"+strconv.Itoa(e)+".kind", 4) {
		case 0:
			upd, _ := d.markAvailable(typ, time.Duration(vs.IntRange("ev"+strconv.Itoa(e)+".latency", 1, 5_000_000_000)))
			d.informDialerGroupUpdate(upd)
		case 1:
			d.informDialerGroupUpdate(d.markUnavailable(typ))
		case 2:
			d.ReportUnavailableForced(typ, errC16)
		case 3:
			d.ReportAvailableTraffic(typ)
		}
		alive := d.MustGetAlive(typ)
		wantA, wantB := 0, 1
		if alive {
			wantA, wantB = 1, 2
		}
		vs.Assert("every group containing the node sees its state", setA.Len() == wantA && setB.Len() == wantB)
		vs.Assert("latency group's kernel bit follows its last node", bit == alive)
		if !alive {
			vs.Assert("a dead node is not handed out by the random group", setB.GetRandExcluded(nil) == other)
		}
	}
}

// Verif_C16_suppression: while a reload mutes node-failure reports, non-forced failures change
// nothing; forced reports still apply; the mute ends with the quiesce window.
func Verif_C16_suppression() {
	vs.Replace("(*github.com/daeuniverse/dae/component/outbound/dialer.Dialer).NotifyHealthCheckResult",
		func(d *Dialer, typ *NetworkType, ok bool, isRevival bool) {})
	types := c16Types()
	typ := types[vs.Choice("domain", 6)]
	idx := typ.Index()
	d := c16NewDialer()
	base := reloadProxyFailureSuppression.Load()
	BeginReloadProxyFailureSuppression()
	nested := vs.Bool("nested")
	if nested {
		BeginReloadProxyFailureSuppression()
	}
	vs.Assert("suppression active", proxyFailureSuppressedForReload())
	traffic := vs.Bool("traffic")
	for i := 0; i < 3; i++ {
		if traffic {
			d.ReportUnavailable(typ, errC16)
		} else {
			d.ReportUnavailableTransactional(typ, errC16)
		}
	}
	vs.Assert("suppressed failures do not count", d.MustGetAlive(typ) && d.failCount[idx] == 0 && d.trafficFailCount[idx].Load() == 0)
	EndReloadProxyFailureSuppression()
	if nested {
		vs.Assert("still suppressed until the last scope ends", proxyFailureSuppressedForReload())
		EndReloadProxyFailureSuppression()
	}
	vs.Assert("counter returns to its previous value", reloadProxyFailureSuppression.Load() == base)
	EndReloadProxyFailureSuppression()
	vs.Assert("counter never goes negative", reloadProxyFailureSuppression.Load() == base && base >= 0)
	until := reloadProxyFailureSuppressUntil.Load()
	d.ReportUnavailableTransactional(typ, errC16)
	now := time.Now().UnixNano()
	if now < until {
		// still inside the quiesce window when the report was evaluated, or it ended in between
		_ = now
	} else if typ.L4Proto == consts.L4ProtoStr_TCP {
		_ = until
	}
	d.ReportUnavailableForced(typ, errC16)
	vs.Assert("forced reports are never suppressed", !d.MustGetAlive(typ))
}

// Verif_C16_snapshot: a reload hands the last known state to the new generation.
func Verif_C16_snapshot() {
	vs.Replace("(*github.com/daeuniverse/dae/component/outbound/dialer.Dialer).NotifyHealthCheckResult",
		func(d *Dialer, typ *NetworkType, ok bool, isRevival bool) {})
	vs.Replace("(*github.com/daeuniverse/dae/component/outbound/dialer.dialerRecoveryManager).snapshot",
		func(m *dialerRecoveryManager, now int64) [3]DialerRecoveryHealthSnapshot { return [3]DialerRecoveryHealthSnapshot{} })
	vs.Replace("(*github.com/daeuniverse/dae/component/outbound/dialer.dialerRecoveryManager).restore",
		func(m *dialerRecoveryManager, s [3]DialerRecoveryHealthSnapshot) {})
	keys := StandardHealthKeys()
	old, next := c16NewDialer(), c16NewDialer()
	var want [6]bool
	for k, key := range keys {
		nt := key.NetworkType()
		want[k] = vs.Bool("alive." + strconv.Itoa(k))
		if !want[k] {
			old.ReportUnavailableForced(nt, errC16)
		}
		old.failCount[nt.Index()] = vs.IntRange("fail."+strconv.Itoa(k), 0, 60)
	}
	k0 := vs.Choice("observedDomain", 6)
	nt0 := *keys[k0].NetworkType()
	bit := true
	set := NewAliveDialerSet(nil, "g", &nt0, 0, consts.DialerSelectionPolicy_MinLastLatency, []*Dialer{next}, []*Annotation{{}},
		func(alive bool) { bit = alive }, false)
	next.RegisterAliveDialerSet(set)
	set.NotifyLatencyChange(next, next.MustGetAlive(&nt0))

	next.RestoreHealthSnapshot(old.ReloadHealthSnapshot())

	for k, key := range keys {
		nt := key.NetworkType()
		vs.Assert("last known alive state is inherited", next.MustGetAlive(nt) == want[k])
		vs.Assert("failure counts are not inherited", next.failCount[nt.Index()] == 0 && next.trafficFailCount[nt.Index()].Load() == 0)
	}
	wantLen := 0
	if want[k0] {
		wantLen = 1
	}
	vs.Assert("the new generation's group sees the inherited state", set.Len() == wantLen && bit == want[k0])
}

// Verif_C16_escalation: a proxy node (it has a server address) through a history of probe results on
// three of its health domains, the shared per-address tracker being the real one: a domain dies by
// its own threshold; every death that is not forced counts towards the address, any successful probe
// clears that count, and only the third death without a success in between takes all six domains
// down at once. After every event all six domains are compared with the model.
func Verif_C16_escalation() {
	resetGlobalProxyState()
	start := time.Now()
	d := c16NewDialer()
	d.ctx, d.cancel = context.WithCancel(context.Background())
	d.property.Address = "198.51.100.7:443"
	d.property.Name = "n"
	lg := logrus.New()
	lg.SetLevel(logrus.PanicLevel)
	d.GlobalOption.Log = lg
	keys := StandardHealthKeys()
	all := make([]*NetworkType, len(keys))
	for i, k := range keys {
		all[i] = k.NetworkType()
	}
	// the three domains events happen on: two TCP ones (one failed probe kills) and one UDP-DNS one,
	// which already has two failed probes behind it (so that the next one kills)
	act := []*NetworkType{
		{L4Proto: consts.L4ProtoStr_TCP, IpVersion: consts.IpVersionStr_4},
		{L4Proto: consts.L4ProtoStr_TCP, IpVersion: consts.IpVersionStr_6},
		{L4Proto: consts.L4ProtoStr_UDP, IpVersion: consts.IpVersionStr_4, UdpHealthDomain: UdpHealthDomainDns, IsDns: true},
	}
	alive := map[int]bool{}
	for _, t := range all {
		alive[t.Index()] = true
	}
	fails := map[int]int{act[2].Index(): 2}
	d.failCount[act[2].Index()] = 2
	thr := map[int]int{act[0].Index(): 1, act[1].Index(): 1, act[2].Index(): 3}
	deaths := 0
	events := 4
	if vs.Thorough() {
		events = 5
	}
	for e := 0; e < events; e++ {
		tag := "ev" + strconv.Itoa(e)
		t := act[vs.Choice(tag+".domain", 3)]
		i := t.Index()
		if vs.Bool(tag + ".success") {
			upd, _ := d.markAvailable(t, 20*time.Millisecond)
			d.informDialerGroupUpdate(upd)
			alive[i], fails[i] = true, 0
			deaths = 0
		} else {
			d.informDialerGroupUpdate(d.markUnavailable(t))
			fails[i]++
			if alive[i] && fails[i] >= thr[i] {
				alive[i] = false
				deaths++
				if deaths >= 3 {
					for _, x := range all {
						alive[x.Index()] = false
					}
					deaths = 0
				}
			}
		}
		// the history is a burst: the tracker's ageing of old failures is not the subject here
		vs.Assume(time.Now().Sub(start) < time.Second)
		ok := true
		for _, x := range all {
			ok = ok && d.MustGetAlive(x) == alive[x.Index()]
		}
		vs.Assert("every health domain is alive exactly as thresholds and the three-deaths escalation prescribe", ok)
	}
}
