//go:build verif

package outbound

import (
	"errors"
	"strconv"

	"github.com/daeuniverse/dae/component/outbound/dialer"
	"github.com/daeuniverse/dae/config"
	"github.com/daeuniverse/dae/pkg/config_parser"
	vs "github.com/daeuniverse/dae/zz_vs"
	"github.com/dlclark/regexp2"
)

// ---- environment: node properties and the third-party regex engine ----

type c14World struct {
	props   map[*dialer.Dialer]*dialer.Property
	regexID map[*regexp2.Regexp]uint64
	patID   map[string]uint64
	badPat  map[string]bool
}

var errC14BadRegex = errors.New("bad regex")

func c14Install(w *c14World) {
	vs.Replace("(*github.com/daeuniverse/dae/component/outbound/dialer.Dialer).Property",
		func(d *dialer.Dialer) *dialer.Property { return w.props[d] })
	// regexp2 is used through its contract: Compile fails for the patterns marked bad, and
	// MatchString is an arbitrary but fixed predicate of (pattern, subject).
	vs.Replace("github.com/dlclark/regexp2.Compile", func(expr string, opt regexp2.RegexOptions) (*regexp2.Regexp, error) {
		if w.badPat[expr] {
			return nil, errC14BadRegex
		}
		re := &regexp2.Regexp{}
		w.regexID[re] = w.patID[expr]
		return re, nil
	})
	vs.Replace("(*github.com/dlclark/regexp2.Regexp).MatchString", func(re *regexp2.Regexp, s string) (bool, error) {
		return vs.UFBool("regexMatch", w.regexID[re], c14StrID(s)), nil
	})
}

// c14StrID packs a short string into an integer (identity of the subject for the regex predicate).
func c14StrID(s string) uint64 {
	var v uint64 = uint64(len(s))
	for i := 0; i < len(s) && i < 6; i++ {
		v = v<<8 | uint64(s[i])
	}
	return v
}

func c14SymStr(name string, n int) string {
	b := vs.Bytes(name, n)
	for i := range b {
		vs.Assume(b[i] == 'a' || b[i] == 'b')
	}
	return string(b)
}

type c14Param struct {
	key     int // 0 exact, 1 keyword, 2 regex, 3 unknown key
	val     string
	pattern string
}

type c14Func struct {
	input  int // 0 name, 1 subtag, 2 unknown input
	not    bool
	params []c14Param
}

var c14Keys = []string{"", FilterKey_Name_Keyword, FilterKey_Name_Regex, "prefix"}
var c14Inputs = []string{FilterInput_Name, FilterInput_SubscriptionTag, FilterInput_Link}

// c14Spec: does node (name, tag) satisfy one filter line? invalid reports whether evaluating the
// line in any order meets an invalid element.
func c14ParamMatches(w *c14World, f *c14Func, p *c14Param, name, tag string) (match bool, valid bool) {
	subject := name
	if f.input == 1 {
		subject = tag
	}
	switch p.key {
	case 0:
		return subject == p.val, true
	case 1:
		if f.input == 1 {
			return false, false // subtag() has no keyword key
		}
		return c14Contains(subject, p.val), true
	case 2:
		if w.badPat[p.pattern] {
			return false, false
		}
		return vs.UFBool("regexMatch", w.patID[p.pattern], c14StrID(subject)), true
	}
	return false, false
}

func c14Contains(s, sub string) bool {
	for i := 0; i+len(sub) <= len(s); i++ {
		if s[i:i+len(sub)] == sub {
			return true
		}
	}
	return false
}

// Verif_C14_filter: FilterAndAnnotate over a pool of nodes with symbolic names/tags and
// symbolic-shape (valid) filter lines; members, order, uniqueness and annotations against the spec.
func Verif_C14_filter() {
	w := &c14World{props: map[*dialer.Dialer]*dialer.Property{}, regexID: map[*regexp2.Regexp]uint64{}, patID: map[string]uint64{"p0": 1, "p1": 2, "pbad": 3}, badPat: map[string]bool{"pbad": true}}
	c14Install(w)
	nNodes, nPat := 2, 1
	if vs.Thorough() {
		nNodes, nPat = 3, 2
	}
	set := &DialerSet{nodeToTagMap: map[*dialer.Dialer]string{}}
	names := make([]string, nNodes)
	tags := make([]string, nNodes)
	for i := 0; i < nNodes; i++ {
		d := &dialer.Dialer{}
		names[i] = c14SymStr("node"+strconv.Itoa(i)+".name", 2)
		tags[i] = c14SymStr("node"+strconv.Itoa(i)+".tag", 1)
		p := &dialer.Property{}
		p.Name = names[i]
		w.props[d] = p
		set.dialers = append(set.dialers, d)
		set.nodeToTagMap[d] = tags[i]
	}
	// shapes: 0 = no filter; 1 = one line, one condition; 2 = two lines of one condition (one value each; <=2 in the thorough tier);
	// 3 = one line with two conditions of one value each; thorough adds 4 = two lines of two conditions
	nShapes := 4
	if vs.Thorough() {
		nShapes = 5
	}
	shape := vs.Choice("shape", nShapes)
	nLines := []int{0, 1, 2, 1, 2}[shape]
	funcsPerLine := []int{0, 1, 1, 2, 2}[shape]
	maxParams := []int{0, 2, 1, 1, 1}[shape]
	if vs.Thorough() {
		maxParams = []int{0, 2, 2, 1, 2}[shape]
	}
	var lines [][]c14Func
	var filters [][]*config_parser.Function
	var annos [][]*config_parser.Param
	annoKind := make([]int, nLines)
	for l := 0; l < nLines; l++ {
		var fl []c14Func
		var cf []*config_parser.Function
		for k := 0; k < funcsPerLine; k++ {
			tag := "l" + strconv.Itoa(l) + "f" + strconv.Itoa(k)
			f := c14Func{input: vs.Choice(tag+".input", 2), not: vs.Bool(tag + ".not")}
			np := 1 + vs.Choice(tag+".params", maxParams)
			fn := &config_parser.Function{Name: c14Inputs[f.input], Not: f.not}
			for q := 0; q < np; q++ {
				ptag := tag + "p" + strconv.Itoa(q)
				var p c14Param
				if f.input == 0 {
					p.key = vs.Choice(ptag+".key", 3)
				} else {
					p.key = []int{0, 2}[vs.Choice(ptag+".key", 2)]
				}
				switch p.key {
				case 0:
					if f.input == 1 {
						p.val = c14SymStr(ptag+".val", 1)
					} else {
						p.val = c14SymStr(ptag+".val", 2)
					}
				case 1:
					p.val = c14SymStr(ptag+".val", 1)
				case 2:
					p.pattern = []string{"p0", "p1"}[vs.Choice(ptag+".pat", nPat)]
					p.val = p.pattern
				}
				f.params = append(f.params, p)
				fn.Params = append(fn.Params, &config_parser.Param{Key: c14Keys[p.key], Val: p.val})
			}
			fl = append(fl, f)
			cf = append(cf, fn)
		}
		lines = append(lines, fl)
		filters = append(filters, cf)
		annoKind[l] = vs.Choice("line"+strconv.Itoa(l)+".anno", 2)
		if annoKind[l] == 0 {
			annos = append(annos, nil)
		} else {
			annos = append(annos, []*config_parser.Param{{Key: dialer.AnnotationKey_AddLatency, Val: strconv.Itoa(100*(l+1)) + "ms"}})
		}
	}

	got, gotAnno, err := set.FilterAndAnnotate(filters, annos)
	vs.Assert("valid filters never error", err == nil)

	type member struct {
		idx, line int
	}
	var want []member
	for i := 0; i < nNodes; i++ {
		if nLines == 0 {
			want = append(want, member{i, -1})
			continue
		}
		for l := 0; l < nLines; l++ {
			all := true
			for k := range lines[l] {
				f := &lines[l][k]
				any := false
				for q := range f.params {
					m, _ := c14ParamMatches(w, f, &f.params[q], names[i], tags[i])
					if m {
						any = true
					}
				}
				if any == f.not {
					all = false
				}
			}
			if all {
				want = append(want, member{i, l})
				break
			}
		}
	}
	vs.Assert("member count", len(got) == len(want) && len(gotAnno) == len(want))
	for j := range want {
		vs.Assert("members in pool order, once each", got[j] == set.dialers[want[j].idx])
		wantLat := int64(0)
		if want[j].line >= 0 && annoKind[want[j].line] == 1 {
			wantLat = int64(100*(want[j].line+1)) * 1_000_000
		}
		vs.Assert("annotation of the first selecting line", gotAnno[j] != nil && int64(gotAnno[j].AddLatency) == wantLat)
	}
}

// Verif_C14_invalid: one invalid element (unknown input, unknown key, keyword on subtag, bad regex,
// malformed or unknown annotation - alone or after a valid one) placed anywhere in a two-line filter: an error is returned
// whenever the element is examined for some node, and never otherwise.
func Verif_C14_invalid() {
	w := &c14World{props: map[*dialer.Dialer]*dialer.Property{}, regexID: map[*regexp2.Regexp]uint64{}, patID: map[string]uint64{"p0": 1, "pbad": 3}, badPat: map[string]bool{"pbad": true}}
	c14Install(w)
	d := &dialer.Dialer{}
	p := &dialer.Property{}
	name := c14SymStr("node.name", 2)
	p.Name = name
	w.props[d] = p
	set := &DialerSet{dialers: []*dialer.Dialer{d}, nodeToTagMap: map[*dialer.Dialer]string{d: "t"}}
	// line 0: name(v0) ; line 1: name(v1, <second param>) ; the invalid element sits at `where`
	v0, v1 := c14SymStr("v0", 2), c14SymStr("v1", 2)
	not0 := vs.Bool("not0")
	f0 := &config_parser.Function{Name: FilterInput_Name, Not: not0, Params: []*config_parser.Param{{Val: v0}}}
	f1 := &config_parser.Function{Name: FilterInput_Name, Params: []*config_parser.Param{{Val: v1}}}
	annos := [][]*config_parser.Param{nil, nil}
	kind := vs.Choice("invalid", 8)
	examined := false
	hit0 := (name == v0) != not0
	hit1first := name == v1
	switch kind {
	case 0: // unknown input on line 1
		f1.Name = "link"
		examined = !hit0
	case 1: // unknown key as second value of line 1
		f1.Params = append(f1.Params, &config_parser.Param{Key: "prefix", Val: "a"})
		examined = !hit0 && !hit1first
	case 2: // bad regex as second value of line 1
		f1.Params = append(f1.Params, &config_parser.Param{Key: FilterKey_Name_Regex, Val: "pbad"})
		examined = !hit0 && !hit1first
	case 3: // keyword key on subtag()
		f1.Name = FilterInput_SubscriptionTag
		f1.Params = []*config_parser.Param{{Key: FilterKey_Name_Keyword, Val: "t"}}
		examined = !hit0
	case 4: // malformed annotation on line 1
		annos[1] = []*config_parser.Param{{Key: dialer.AnnotationKey_AddLatency, Val: "soon"}}
		examined = !hit0 && hit1first
	case 5: // unknown annotation on line 0
		annos[0] = []*config_parser.Param{{Key: "weight", Val: "1"}}
		examined = hit0
	case 6: // unknown annotation after a valid one on line 0
		annos[0] = []*config_parser.Param{{Key: dialer.AnnotationKey_AddLatency, Val: "100ms"}, {Key: "weight", Val: "1"}}
		examined = hit0
	case 7: // malformed annotation after a valid one on line 1
		annos[1] = []*config_parser.Param{{Key: dialer.AnnotationKey_AddLatency, Val: "-500ms"}, {Key: dialer.AnnotationKey_AddLatency, Val: "soon"}}
		examined = !hit0 && hit1first
	}
	_, _, err := set.FilterAndAnnotate([][]*config_parser.Function{{f0}, {f1}}, annos)
	vs.Assert("invalid element examined <=> configuration error", (err != nil) == examined)
}

// Verif_C14_first_invalid: an invalid element in the position evaluated first is always reported.
func Verif_C14_first_invalid() {
	w := &c14World{props: map[*dialer.Dialer]*dialer.Property{}, regexID: map[*regexp2.Regexp]uint64{}, patID: map[string]uint64{"p0": 1, "pbad": 3}, badPat: map[string]bool{"pbad": true}}
	c14Install(w)
	d := &dialer.Dialer{}
	p := &dialer.Property{}
	p.Name = c14SymStr("node.name", 2)
	w.props[d] = p
	set := &DialerSet{dialers: []*dialer.Dialer{d}, nodeToTagMap: map[*dialer.Dialer]string{d: c14SymStr("node.tag", 1)}}
	kind := vs.Choice("invalid", 4)
	fn := &config_parser.Function{Name: FilterInput_Name, Not: vs.Bool("not")}
	switch kind {
	case 0:
		fn.Name = "link"
		fn.Params = []*config_parser.Param{{Val: "aa"}}
	case 1:
		fn.Params = []*config_parser.Param{{Key: "prefix", Val: "a"}}
	case 2:
		fn.Params = []*config_parser.Param{{Key: FilterKey_Name_Regex, Val: "pbad"}}
	case 3:
		fn.Name = FilterInput_SubscriptionTag
		fn.Params = []*config_parser.Param{{Key: FilterKey_Name_Keyword, Val: "a"}}
	}
	_, _, err := set.FilterAndAnnotate([][]*config_parser.Function{{fn}}, [][]*config_parser.Param{nil})
	vs.Assert("invalid first element is a configuration error", err != nil)
}

// Verif_C14_policy: group policy parsing.
func Verif_C14_policy() {
	names := []string{"random", "fixed", "min", "min_avg10", "min_moving_avg", "fastest", ""}
	name := names[vs.Choice("policy", len(names))]
	f := &config_parser.Function{Name: name, Not: vs.Bool("not")}
	np := vs.Choice("params", 3)
	idx := []string{"0", "2", "-1", "x", "007", ""}
	pick := vs.Choice("index", len(idx))
	keyed := vs.Bool("keyed")
	for i := 0; i < np; i++ {
		p := &config_parser.Param{Val: idx[pick]}
		if keyed && i == 0 {
			p.Key = "k"
		}
		f.Params = append(f.Params, p)
	}
	var policy config.FunctionListOrString
	twoFuncs := vs.Bool("twoFunctions")
	if twoFuncs {
		policy = []*config_parser.Function{f, {Name: "random"}}
	} else {
		policy = []*config_parser.Function{f}
	}
	pol, err := NewDialerSelectionPolicyFromGroupParam(&config.Group{Policy: policy})
	latency := name == "random" || name == "min" || name == "min_avg10" || name == "min_moving_avg"
	switch {
	case twoFuncs:
		vs.Assert("two policies rejected", err != nil)
	case latency:
		if !f.Not && np == 0 {
			vs.Assert("known policy accepted", err == nil && string(pol.Policy) == name)
		} else {
			vs.Assert("a negated policy or one with parameters it does not take is a configuration error", err != nil)
		}
	case name == "fixed":
		ok := !f.Not && np == 1 && !keyed && (pick == 0 || pick == 1 || pick == 2 || pick == 4)
		if ok {
			want := []int{0, 2, -1, 0, 7, 0}[pick]
			vs.Assert("fixed(i) parsed", err == nil && pol.FixedIndex == want && string(pol.Policy) == "fixed")
		} else {
			vs.Assert("malformed fixed() rejected", err != nil)
		}
	default:
		vs.Assert("unknown policy rejected", err != nil)
	}
}
