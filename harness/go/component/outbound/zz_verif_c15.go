//go:build verif

package outbound

import (
	"errors"
	"strconv"
	"time"

	"github.com/daeuniverse/dae/common/consts"
	"github.com/daeuniverse/dae/component/outbound/dialer"
	vs "github.com/daeuniverse/dae/zz_vs"
)

// c15Alive[k][i]: node i is recorded alive in the health domain with standard key index k.
type c15GroupWorld struct {
	ds    []*dialer.Dialer
	alive [6][]bool
}

func c15GInstall(w *c15GroupWorld) {
	vs.Replace("(*github.com/daeuniverse/dae/component/outbound/dialer.Dialer).snapshotLatencyForPolicy",
		func(d *dialer.Dialer, typ *dialer.NetworkType, policy consts.DialerSelectionPolicy) (time.Duration, bool) {
			return 0, false
		})
	vs.Replace("(*github.com/daeuniverse/dae/component/outbound/dialer.Dialer).MustGetAlive",
		func(d *dialer.Dialer, typ *dialer.NetworkType) bool {
			k := c15KeyOf(typ)
			for i := range w.ds {
				if w.ds[i] == d {
					return w.alive[k][i]
				}
			}
			return false
		})
}

// c15KeyOf maps a network type to its position in dialer.StandardHealthKeys().
func c15KeyOf(typ *dialer.NetworkType) int {
	keys := dialer.StandardHealthKeys()
	hk := typ.HealthKey()
	for i := range keys {
		if keys[i] == hk {
			return i
		}
	}
	return -1
}

// Verif_C15_group_select: DialerGroup selection over six health domains with arbitrary alive
// states, for every policy, requested type, strictness and excluded node.
func Verif_C15_group_select() {
	n := 1 + vs.Choice("nodes", 2)
	w := &c15GroupWorld{}
	c15GInstall(w)
	annos := make([]*dialer.Annotation, n)
	for i := 0; i < n; i++ {
		w.ds = append(w.ds, &dialer.Dialer{})
		annos[i] = &dialer.Annotation{}
	}
	pol := vs.Choice("policy", 5)
	policy := []DialerSelectionPolicy{
		{Policy: consts.DialerSelectionPolicy_Random},
		{Policy: consts.DialerSelectionPolicy_MinLastLatency},
		{Policy: consts.DialerSelectionPolicy_Fixed, FixedIndex: 0},
		{Policy: consts.DialerSelectionPolicy_Fixed, FixedIndex: 1},
		{Policy: consts.DialerSelectionPolicy_Fixed, FixedIndex: -1},
	}[pol]
	g := &DialerGroup{Name: "g", Dialers: w.ds, dialersAnnotations: annos}
	state := &dialerGroupSelectionState{policy: policy}
	keys := dialer.StandardHealthKeys()
	// quick tier: data-UDP v4 (all fallbacks), TCP v6 and DNS-UDP v4; thorough: all six types
	reqKey := vs.Choice("requested", 6)
	if !vs.Thorough() {
		quick := []int{-1, -1, -1}
		qi := 0
		for j, kk := range keys {
			if (kk.Domain == dialer.HealthDomainDataUDP && kk.IpVersion == consts.IpVersionStr_4) ||
				(kk.Domain == dialer.HealthDomainTCP && kk.IpVersion == consts.IpVersionStr_6) ||
				(kk.Domain == dialer.HealthDomainDnsUDP && kk.IpVersion == consts.IpVersionStr_4) {
				quick[qi] = j
				qi++
			}
		}
		vs.Assume(reqKey == quick[0] || reqKey == quick[1] || reqKey == quick[2])
		if pol == 1 {
			vs.Assume(reqKey == quick[0] || reqKey == quick[1])
		}
	}
	strict := vs.Bool("strictIpVersion")
	// documented fallbacks: data UDP tries DNS-UDP then TCP of the same family; the other family
	// only when the caller does not insist on the IP version
	other := func(k int) int { return k ^ 1 } // standard keys come in (v4, v6) pairs
	tried := func(k int) []int {
		key := keys[k]
		if key.Domain == dialer.HealthDomainDataUDP {
			var dns, tcp int
			for j, kk := range keys {
				if kk.IpVersion == key.IpVersion && kk.Domain == dialer.HealthDomainDnsUDP {
					dns = j
				}
				if kk.IpVersion == key.IpVersion && kk.Domain == dialer.HealthDomainTCP {
					tcp = j
				}
			}
			return []int{k, dns, tcp}
		}
		return []int{k}
	}
	cands := tried(reqKey)
	if !strict {
		cands = append(cands, tried(other(reqKey))...)
	}
	isCand := func(k int) bool {
		for _, c := range cands {
			if c == k {
				return true
			}
		}
		return false
	}
	if pol <= 1 {
		for k, key := range keys {
			nt := *key.NetworkType()
			set := dialer.NewAliveDialerSet(nil, "g", &nt, 0, policy.Policy, w.ds, annos, func(bool) {}, false)
			w.alive[k] = make([]bool, n)
			for i := 0; i < n; i++ {
				// health domains the selection may consult are arbitrary; the others are "alive", the
				// adversarial choice for the obligation that only tried types are used
				w.alive[k][i] = true
				if isCand(k) {
					w.alive[k][i] = vs.Bool("alive." + strconv.Itoa(k) + "." + strconv.Itoa(i))
				}
				set.NotifyLatencyChange(w.ds[i], w.alive[k][i])
			}
			state.aliveDialerSets[key.CollectionIndex()] = set
			if nt.L4Proto == consts.L4ProtoStr_TCP {
				if nt.IpVersion == consts.IpVersionStr_4 {
					state.aliveDialerSets[dialer.IdxDnsTcp4] = set
				} else {
					state.aliveDialerSets[dialer.IdxDnsTcp6] = set
				}
			}
		}
	} else {
		for k := range keys {
			w.alive[k] = make([]bool, n)
		}
	}
	g.selectionState.Store(state)

	req := *keys[reqKey].NetworkType()
	exIdx := vs.Choice("excluded", n+1) // n = nobody excluded
	var excluded *dialer.Dialer
	if exIdx < n {
		excluded = w.ds[exIdx]
	}

	d, _, selType, err := g.SelectWithExclusionResult(&req, strict, excluded)

	if pol >= 2 {
		fi := policy.FixedIndex
		if fi >= 0 && fi < n {
			vs.Assert("fixed(i) returns the i-th node", err == nil && d == w.ds[fi])
		} else {
			vs.Assert("fixed(i) out of range is an error", err != nil && d == nil)
		}
		return
	}
	candidateExists := false
	for _, k := range cands {
		for i := 0; i < n; i++ {
			if w.alive[k][i] && i != exIdx {
				candidateExists = true
			}
		}
	}
	if candidateExists {
		vs.Assert("a node is selected whenever a tried type has an alive, non-excluded node", err == nil && d != nil)
	}
	if err == nil {
		di := -1
		for i := range w.ds {
			if w.ds[i] == d {
				di = i
			}
		}
		vs.Assert("selected node belongs to the group", di >= 0)
		aliveSomewhere := false
		for _, k := range cands {
			if w.alive[k][di] {
				aliveSomewhere = true
			}
		}
		if n > 1 {
			vs.Assert("selected node is alive in a tried type", aliveSomewhere)
			vs.Assert("excluded node is never selected", di != exIdx)
		} else if !aliveSomewhere || di == exIdx {
			vs.Assert("only node handed out as a last resort only when nothing else is selectable", !candidateExists)
		}
		vs.Assert("a selection network type is reported", selType != nil)
	} else {
		vs.Assert("failure is 'no alive dialer'", errors.Is(err, ErrNoAliveDialer))
		vs.Assert("'no alive node' only when no tried type has a selectable node", !candidateExists)
	}
}
