//go:build verif

package dns

import (
	"strconv"

	"github.com/daeuniverse/dae/common/consts"
	"github.com/daeuniverse/dae/config"
	"github.com/daeuniverse/dae/pkg/config_parser"
	"github.com/sirupsen/logrus"
	vs "github.com/daeuniverse/dae/zz_vs"
)

// Verif_C17_dns_capacity: DNS request-routing programs around the match-set limit (the limit is a
// variable; it is lowered to 32 here so that the boundary is within reach). Rules are qname or qtype
// rules (the kinds of the rules next to the boundary are symbolic). Compiling never crashes; a
// program with a qname rule at an index the matcher's tables cannot hold is rejected with an error;
// an accepted program answers every query without error, and a name that only the last qname rule
// lists is routed by that rule.
func Verif_C17_dns_capacity() {
	consts.MaxMatchSetLen = 32
	n := 29 + vs.Choice("rules", 6) // 29..34 rules, then the fallback
	var rules []*config_parser.RoutingRule
	lastQname := -1
	var qtypeRule []bool
	for i := 0; i < n; i++ {
		up := "alidns"
		if i%2 == 1 {
			up = "googledns" // alternate so that neighbouring rules are not merged
		}
		isQname := true
		if i >= 28 {
			isQname = vs.Choice("rule"+strconv.Itoa(i)+".qname", 2) == 1
		}
		f := &config_parser.Function{Name: consts.Function_QType, Params: []*config_parser.Param{{Val: strconv.Itoa(1000 + i)}}}
		if isQname {
			f = &config_parser.Function{Name: consts.Function_QName, Params: []*config_parser.Param{{Key: "full", Val: "h" + strconv.Itoa(i) + ".example.org"}}}
			lastQname = i
		}
		qtypeRule = append(qtypeRule, !isQname)
		rules = append(rules, &config_parser.RoutingRule{AndFunctions: []*config_parser.Function{f}, Outbound: config_parser.Function{Name: up}})
	}
	b, err := NewRequestMatcherBuilder(logrus.New(), rules, map[string]uint8{"alidns": 0, "googledns": 1}, config.FunctionOrString("alidns"))
	vs.Assert("rules of known kinds lower without error", err == nil)
	m, err := b.Build()
	if lastQname >= 32 {
		vs.Assert("a qname rule beyond the match-set limit is rejected with an error", err != nil)
		return
	}
	vs.Assert("a program within the limit is accepted", err == nil)
	up, err := m.Match("h"+strconv.Itoa(lastQname)+".example.org", 1)
	vs.Assert("an accepted program answers queries", err == nil)
	vs.Assert("the last qname rule routes its own name", int(up) == lastQname%2)
	// an arbitrary query type on a name no rule lists: the first qtype rule naming it decides, else the fallback
	qt := vs.U16("qtype")
	want := 0
	for i := n - 1; i >= 0; i-- {
		if qtypeRule[i] && qt == uint16(1000+i) {
			want = i % 2
		}
	}
	up, err = m.Match("unlisted.example.org", qt)
	vs.Assert("an arbitrary query is routed by the first rule that matches it", err == nil && int(up) == want)
}
