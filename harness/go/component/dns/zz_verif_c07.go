//go:build verif

package dns

import (
	"context"
	"net"
	"net/netip"
	"strconv"

	"github.com/daeuniverse/dae/common/consts"
	"github.com/daeuniverse/dae/component/routing"
	"github.com/daeuniverse/dae/component/routing/domain_matcher"
	"github.com/daeuniverse/dae/pkg/config_parser"
	"github.com/daeuniverse/dae/pkg/trie"
	dnsmessage "github.com/miekg/dns"
	"github.com/sirupsen/logrus"
	vs "github.com/daeuniverse/dae/zz_vs"
)

// Contracts K-LPM / K-DOM as in the traffic-routing check: the trie and the domain matcher are
// replaced by their contracts (CIDR containment; one free boolean per domain set).

type c07World struct {
	tries   map[*trie.Trie][]netip.Prefix
	domSets []int
}

func c07DomHit(idx int) bool { return vs.UFBool("qnameSetMatches", uint64(idx)) }

func c07Bin(p netip.Prefix) string {
	a := p.Addr().As16()
	n := p.Bits()
	if p.Addr().Is4() {
		n += 96
	}
	return string(append([]byte{byte(n)}, a[:]...))
}

func c07CoversBits(addr [16]byte, bits int, probe [16]byte) bool {
	var diff byte
	for i := 0; i < 16; i++ {
		nb := bits - i*8
		if nb <= 0 {
			break
		}
		mask := byte(0xff)
		if nb < 8 {
			mask = byte(0xff << uint(8-nb))
		}
		diff |= (addr[i] ^ probe[i]) & mask
	}
	return diff == 0
}

func c07Covers(p netip.Prefix, word string) bool {
	pw := c07Bin(p)
	var pa, wa [16]byte
	copy(pa[:], pw[1:])
	copy(wa[:], word[1:])
	return c07CoversBits(pa, int(pw[0]), wa)
}

func c07Install(w *c07World) {
	vs.Replace("github.com/daeuniverse/dae/pkg/trie.Prefix2bin128", c07Bin)
	vs.Replace("github.com/daeuniverse/dae/pkg/trie.NewTrieFromPrefixes", func(cidrs []netip.Prefix) (*trie.Trie, error) {
		t := &trie.Trie{}
		w.tries[t] = cidrs
		return t, nil
	})
	vs.Replace("(*github.com/daeuniverse/dae/pkg/trie.Trie).HasPrefix", func(t *trie.Trie, word string) bool {
		hit := false
		for _, p := range w.tries[t] {
			hit = vs.IteBool(c07Covers(p, word), true, hit)
		}
		return hit
	})
	vs.Replace("github.com/daeuniverse/dae/component/routing/domain_matcher.NewAhocorasickSlimtrie",
		func(log *logrus.Logger, maxLen int) *domain_matcher.AhocorasickSlimtrie { return &domain_matcher.AhocorasickSlimtrie{} })
	vs.Replace("(*github.com/daeuniverse/dae/component/routing/domain_matcher.AhocorasickSlimtrie).AddSet",
		func(m *domain_matcher.AhocorasickSlimtrie, bitIndex int, patterns []string, typ consts.RoutingDomainKey) {
			w.domSets = append(w.domSets, bitIndex)
		})
	vs.Replace("(*github.com/daeuniverse/dae/component/routing/domain_matcher.AhocorasickSlimtrie).Build",
		func(m *domain_matcher.AhocorasickSlimtrie) error { return nil })
	vs.Replace("(*github.com/daeuniverse/dae/component/routing/domain_matcher.AhocorasickSlimtrie).MatchDomainBitmap",
		func(m *domain_matcher.AhocorasickSlimtrie, domain string) []uint32 {
			bm := make([]uint32, consts.MaxMatchSetLen/32)
			for _, idx := range w.domSets {
				if c07DomHit(idx) {
					bm[idx/32] |= 1 << (uint(idx) % 32)
				}
			}
			return bm
		})
}

type c07Cond struct {
	kind      int // 0 qname 1 qtype 2 ip 3 upstream
	not       bool
	qtypes    []uint16
	prefixes  []netip.Prefix
	upstreams []uint8
	firstSet  int
	groups    int
}

type c07Rule struct {
	conds []*c07Cond
	out   uint8
}

var c07Funcs = []string{consts.Function_QName, consts.Function_QType, consts.Function_Ip, consts.Function_Upstream}
var c07Upstreams = map[string]uint8{"u0": 0, "u1": 1, "u2": 2}

func c07Prefix(tag string) netip.Prefix {
	var a [16]byte
	copy(a[:], vs.Bytes(tag+".addr", 16))
	forms := 2
	if vs.Thorough() {
		forms = 3
	}
	switch vs.Choice(tag+".form", forms) {
	case 0:
		return netip.PrefixFrom(netip.AddrFrom4([4]byte{a[12], a[13], a[14], a[15]}), 8)
	case 1:
		return netip.PrefixFrom(netip.AddrFrom16(a), 48)
	}
	return netip.PrefixFrom(netip.AddrFrom4([4]byte{a[12], a[13], a[14], a[15]}), 0)
}

// c07Register: parsers handing symbolic typed values to the real add* methods of either builder.
func c07Register(conds map[string]*c07Cond, nRules func() int,
	addQName func(*config_parser.Function, string, []string, *routing.Outbound) error,
	addQType func(*config_parser.Function, []uint16, *routing.Outbound) error,
	addIp func(*config_parser.Function, []netip.Prefix, *routing.Outbound) error,
	addUpstream func(*config_parser.Function, []string, *routing.Outbound) error) func(*routing.RulesBuilder) {
	return func(rb *routing.RulesBuilder) {
		for k, name := range c07Funcs {
			kind := k
			rb.RegisterFunctionParser(name, func(log *logrus.Logger, f *config_parser.Function, key string, vals []string, ob *routing.Outbound) error {
				c := conds[vals[0][:4]]
				tag := vals[0]
				n := len(vals)
				switch kind {
				case 0:
					if c.groups == 0 {
						c.firstSet = nRules()
					}
					c.groups++
					return addQName(f, key, vals, ob)
				case 1:
					for i := 0; i < n; i++ {
						c.qtypes = append(c.qtypes, vs.U16(tag+"#"+strconv.Itoa(i)+".qtype"))
					}
					return addQType(f, c.qtypes, ob)
				case 2:
					for i := 0; i < n; i++ {
						c.prefixes = append(c.prefixes, c07Prefix(tag+"#"+strconv.Itoa(i)))
					}
					return addIp(f, c.prefixes, ob)
				case 3:
					names := make([]string, n)
					for i := 0; i < n; i++ {
						names[i] = []string{"u1", "u2", "u0"}[vs.Choice(tag+"#"+strconv.Itoa(i)+".upstream", 2)]
						c.upstreams = append(c.upstreams, c07Upstreams[names[i]])
					}
					return addUpstream(f, names, ob)
				}
				return nil
			})
		}
	}
}

func c07BuildCond(tag string, kinds []int, maxVals int, conds map[string]*c07Cond) (*config_parser.Function, *c07Cond) {
	c := &c07Cond{kind: kinds[vs.Choice(tag+".kind", len(kinds))], not: vs.Bool(tag + ".not")}
	f := &config_parser.Function{Name: c07Funcs[c.kind], Not: c.not}
	n := 1 + vs.Choice(tag+".values", maxVals)
	for i := 0; i < n; i++ {
		p := &config_parser.Param{Val: tag + "v0"}
		if c.kind == 0 {
			p.Key = []string{"suffix", "keyword"}[i%2]
			p.Val = tag + "-" + strconv.Itoa(i) + ".example.com"
		}
		f.Params = append(f.Params, p)
	}
	conds[tag] = c
	return f, c
}

type c07Query struct {
	qtype    uint16
	ips      []netip.Addr
	ips16    [][16]byte
	upstream uint8
}

func c07CondHolds(c *c07Cond, q *c07Query) bool {
	any := false
	switch c.kind {
	case 0:
		for g := 0; g < c.groups; g++ {
			any = vs.IteBool(c07DomHit(c.firstSet+g), true, any)
		}
	case 1:
		for _, t := range c.qtypes {
			any = vs.IteBool(t == q.qtype, true, any)
		}
	case 2:
		for _, a := range q.ips16 {
			w := c07Bin(netip.PrefixFrom(netip.AddrFrom16(a), 128))
			for _, p := range c.prefixes {
				any = vs.IteBool(c07Covers(p, w), true, any)
			}
		}
	case 3:
		for _, u := range c.upstreams {
			any = vs.IteBool(u == q.upstream, true, any)
		}
	}
	return any != c.not
}

func c07Spec(rules []*c07Rule, fallback uint8, q *c07Query) uint64 {
	res := uint64(fallback)
	decided := false
	for _, r := range rules {
		all := true
		for _, c := range r.conds {
			all = vs.IteBool(c07CondHolds(c, q), all, false)
		}
		take := vs.IteBool(decided, false, all)
		res = vs.IteU64(take, uint64(r.out), res)
		decided = vs.IteBool(take, true, decided)
	}
	return res
}

func c07Shape(kinds []int, conds map[string]*c07Cond, outs []string, outIDs []uint8) ([]*config_parser.RoutingRule, []*c07Rule) {
	// a two-condition rule followed by a one-condition rule
	nOut := len(outs)
	if !vs.Thorough() {
		nOut = 2
	}
	k0 := vs.Choice("r0.out", nOut)
	k1 := 1 - k0
	if vs.Thorough() {
		k1 = vs.Choice("r1.out", nOut)
	}
	f00, c00 := c07BuildCond("r0c0", kinds, 2, conds)
	f01, c01 := c07BuildCond("r0c1", kinds, 1, conds)
	f10, c10 := c07BuildCond("r1c0", kinds, 2, conds)
	return []*config_parser.RoutingRule{
			{AndFunctions: []*config_parser.Function{f00, f01}, Outbound: config_parser.Function{Name: outs[k0]}},
			{AndFunctions: []*config_parser.Function{f10}, Outbound: config_parser.Function{Name: outs[k1]}},
		}, []*c07Rule{
			{conds: []*c07Cond{c00, c01}, out: outIDs[k0]},
			{conds: []*c07Cond{c10}, out: outIDs[k1]},
		}
}

// Verif_C07_request: request rules (qname, qtype) -> upstream | asis | reject.
func Verif_C07_request() {
	w := &c07World{tries: map[*trie.Trie][]netip.Prefix{}}
	c07Install(w)
	conds := map[string]*c07Cond{}
	outs := []string{"u1", "asis", "reject", "u2"}
	ids := []uint8{1, uint8(consts.DnsRequestOutboundIndex_AsIs), uint8(consts.DnsRequestOutboundIndex_Reject), 2}
	ast, spec := c07Shape([]int{0, 1}, conds, outs, ids)
	fb := 2
	if vs.Thorough() {
		fb = vs.Choice("fallback", len(outs))
	}
	program, err := routing.NewNormalizedProgram(ast, outs[fb])
	vs.Assert("program accepted", err == nil)
	b := &RequestMatcherBuilder{upstreamName2Id: c07Upstreams}
	err = program.Lower(nil, c07Register(conds, func() int { return len(b.rules) }, b.addQName, b.addQType, nil, nil), b.addFallback)
	vs.Assert("rules compile", err == nil)
	m, err := b.Build()
	vs.Assert("matcher builds", err == nil)
	q := &c07Query{qtype: vs.U16("q.qtype")}
	got, err := m.Match("example.com.", q.qtype)
	vs.Assert("a decision is always reached", err == nil)
	vs.Assert("upstream of the first matching request rule", uint64(got) == c07Spec(spec, ids[fb], q))
}

// Verif_C07_response: response rules (qname, qtype, ip, upstream) -> accept | reject | upstream.
func Verif_C07_response() {
	w := &c07World{tries: map[*trie.Trie][]netip.Prefix{}}
	c07Install(w)
	conds := map[string]*c07Cond{}
	outs := []string{"accept", "reject", "u2"}
	ids := []uint8{uint8(consts.DnsResponseOutboundIndex_Accept), uint8(consts.DnsResponseOutboundIndex_Reject), 2}
	var ast []*config_parser.RoutingRule
	var spec []*c07Rule
	if vs.Thorough() {
		ast, spec = c07Shape([]int{0, 1, 2, 3}, conds, outs, ids)
	} else {
		// quick: {ip | upstream | qtype}(<=2 values) && qname(1 group) -> any verdict ; then
		// {ip | upstream}(1 value) -> accept | reject
		k0 := 1 + vs.Choice("r0.out", 2)
		k1 := vs.Choice("r1.out", 2)
		f00, c00 := c07BuildCond("r0c0", []int{2, 3, 1}, 2, conds)
		f01, c01 := c07BuildCond("r0c1", []int{0}, 1, conds)
		f10, c10 := c07BuildCond("r1c0", []int{2, 3}, 1, conds)
		ast = []*config_parser.RoutingRule{
			{AndFunctions: []*config_parser.Function{f00, f01}, Outbound: config_parser.Function{Name: outs[k0]}},
			{AndFunctions: []*config_parser.Function{f10}, Outbound: config_parser.Function{Name: outs[k1]}},
		}
		spec = []*c07Rule{{conds: []*c07Cond{c00, c01}, out: ids[k0]}, {conds: []*c07Cond{c10}, out: ids[k1]}}
	}
	fb := 0
	if vs.Thorough() {
		fb = vs.Choice("fallback", len(outs))
	}
	program, err := routing.NewNormalizedProgram(ast, outs[fb])
	vs.Assert("program accepted", err == nil)
	b := &ResponseMatcherBuilder{upstreamName2Id: c07Upstreams}
	err = program.Lower(nil, c07Register(conds, func() int { return len(b.rules) }, b.addQName, b.addQType, b.addIp, b.addUpstream), b.addFallback)
	vs.Assert("rules compile", err == nil)
	m, err := b.Build()
	vs.Assert("matcher builds", err == nil)
	q := &c07Query{qtype: vs.U16("q.qtype"), upstream: uint8(vs.IntRange("q.upstream", 0, 2))}
	// answers: none | one IPv4 | an IPv6 and an IPv4 (thorough: any family for each)
	nips := vs.Choice("q.answers", 3)
	for i := 0; i < nips; i++ {
		var a [16]byte
		copy(a[:], vs.Bytes("q.ip"+strconv.Itoa(i), 16))
		is4 := i == nips-1
		if vs.Thorough() {
			is4 = vs.Choice("q.ip"+strconv.Itoa(i)+".is4", 2) == 1
		}
		if is4 {
			ad := netip.AddrFrom4([4]byte{a[12], a[13], a[14], a[15]})
			q.ips = append(q.ips, ad)
			q.ips16 = append(q.ips16, ad.As16())
		} else {
			q.ips = append(q.ips, netip.AddrFrom16(a))
			q.ips16 = append(q.ips16, a)
		}
	}
	got, err := m.Match("example.com.", q.qtype, q.ips, consts.DnsRequestOutboundIndex(q.upstream))
	vs.Assert("a decision is always reached", err == nil)
	vs.Assert("verdict of the first matching response rule", uint64(got) == c07Spec(spec, ids[fb], q))
}

// Verif_C07_response_select: what Dns.ResponseSelect hands to the response matcher: for an answer
// section of up to three records - address records owned by the question name or by another name
// (the usual CNAME chain), CNAMEs, arbitrary address bytes - the matcher is asked about the
// question's name and type, the upstream the answer came from, and exactly the addresses of all
// A / AAAA records, in order.
func Verif_C07_response_select() {
	var gotName string
	var gotType uint16
	var gotIps []netip.Addr
	calls := 0
	vs.Replace("(*github.com/daeuniverse/dae/component/dns.ResponseMatcher).Match",
		func(m *ResponseMatcher, qName string, qType uint16, ips []netip.Addr, upstream consts.DnsRequestOutboundIndex) (consts.DnsResponseOutboundIndex, error) {
			gotName, gotType, gotIps = qName, qType, append([]netip.Addr{}, ips...)
			calls++
			return consts.DnsResponseOutboundIndex_Accept, nil
		})
	d := &Dns{respMatcher: &ResponseMatcher{}}
	msg := &dnsmessage.Msg{}
	msg.Response = true
	qt := vs.U16("qtype")
	msg.Question = []dnsmessage.Question{{Name: "www.example.com.", Qtype: qt, Qclass: dnsmessage.ClassINET}}
	n := vs.Choice("answers", 4)
	var want []netip.Addr
	for i := 0; i < n; i++ {
		tag := "ans" + strconv.Itoa(i)
		owner := []string{"www.example.com.", "edge.cdn.example.net."}[vs.Choice(tag+".owner", 2)]
		switch vs.Choice(tag+".kind", 3) {
		case 0:
			b := vs.Bytes(tag+".a", 4)
			msg.Answer = append(msg.Answer, &dnsmessage.A{Hdr: dnsmessage.RR_Header{Name: owner, Rrtype: dnsmessage.TypeA}, A: net.IP(b)})
			want = append(want, netip.AddrFrom4([4]byte{b[0], b[1], b[2], b[3]}))
		case 1:
			b := vs.Bytes(tag+".aaaa", 16)
			msg.Answer = append(msg.Answer, &dnsmessage.AAAA{Hdr: dnsmessage.RR_Header{Name: owner, Rrtype: dnsmessage.TypeAAAA}, AAAA: net.IP(b)})
			var a [16]byte
			copy(a[:], b)
			want = append(want, netip.AddrFrom16(a))
		case 2:
			msg.Answer = append(msg.Answer, &dnsmessage.CNAME{Hdr: dnsmessage.RR_Header{Name: owner, Rrtype: dnsmessage.TypeCNAME}, Target: "edge.cdn.example.net."})
		}
	}
	idx, _, err := d.ResponseSelect(context.Background(), msg, nil)
	vs.Assert("the matcher's verdict is returned", err == nil && idx == consts.DnsResponseOutboundIndex_Accept && calls == 1)
	vs.Assert("the matcher is asked about the question", gotName == "www.example.com." && gotType == qt)
	same := len(gotIps) == len(want)
	for i := 0; i < len(want) && i < len(gotIps); i++ {
		same = same && gotIps[i] == want[i]
	}
	vs.Assert("and about every address in the answer section, whoever owns the record", same)
}
