//go:build verif

package control

import (
	"context"
	"io"
	"net"
	"net/netip"
	"time"

	"github.com/daeuniverse/dae/common/consts"
	"github.com/daeuniverse/dae/component/dns"
	"github.com/daeuniverse/outbound/netproxy"
	dnsmessage "github.com/miekg/dns"
	"github.com/sirupsen/logrus"
	vs "github.com/daeuniverse/dae/zz_vs"
)

// ---- a retired upstream connection is closed exactly once, after its last in-flight query ----

type c09Forwarder struct {
	closes     int
	inUse      int
	closedBusy bool
}

func (f *c09Forwarder) ForwardDNS(ctx context.Context, data []byte) (*dnsmessage.Msg, error) {
	return nil, nil
}
func (f *c09Forwarder) Close() error {
	f.closes++
	if f.inUse > 0 {
		f.closedBusy = true
	}
	return nil
}

// Verif_C09_forwarder_lifetime: two queries borrow a cached upstream forwarder while it is being
// retired, under every interleaving with up to two preemptions: the forwarder is never closed
// while a query that was admitted is still using it, and once it has been retired and the last
// user has finished it has been closed exactly once.
func Verif_C09_forwarder_lifetime() {
	vs.Schedules(2)
	f := &c09Forwarder{}
	c := newCachedDnsForwarder(f, time.Now())
	user := func() {
		if c.beginUse() {
			f.inUse++
			vs.Yield()
			vs.Assert("an admitted query never sees its forwarder closed", f.closes == 0)
			f.inUse--
			c.endUse()
		}
	}
	go user()
	go user()
	go func() { _ = c.retire() }()
	vs.Join()
	vs.Assert("never closed while in use", !f.closedBusy)
	vs.Assert("a retired forwarder is closed exactly once after its last user", f.closes == 1)
	vs.Assert("a retired forwarder admits no new query", !c.beginUse())
	vs.Assert("and a refused query does not close it again", f.closes == 1)
}

// ---- cached replies go out under the asking client's transaction ID, the cache stays intact ----

// Verif_C09_cached_reply_id: a cached packed response (arbitrary bytes) is served to a client whose
// query carried an arbitrary ID: the datagram sent is the cached response with exactly the first
// two bytes replaced by that ID, addressed from the server the client asked to the client, and the
// cached bytes themselves are not modified (other clients are served from them concurrently).
func Verif_C09_cached_reply_id() {
	n := []int{12, 16, 20, 1030}[vs.Choice("len", 4)] // 1030: beyond the pooled 1024-byte buffer (the oversize branch)
	cached := vs.Bytes("cached", 20)
	if n < 20 {
		cached = cached[:n:n]
	} else if n > 20 {
		cached = append(cached, make([]byte, n-20)...) // a long answer: arbitrary head, plain tail
	}
	orig := append([]byte{}, cached...)
	reqId := vs.U16("client.id")
	var sent []byte
	var from, to netip.AddrPort
	sends := 0
	vs.Replace("github.com/daeuniverse/dae/control.sendPkt",
		func(log *logrus.Logger, data []byte, f netip.AddrPort, t netip.AddrPort, lConn *net.UDPConn) error {
			sent = append([]byte{}, data...)
			from, to = f, t
			sends++
			return nil
		})
	c := &DnsController{log: logrus.New()}
	req := &udpRequest{realSrc: netip.MustParseAddrPort("10.0.0.2:5353"), realDst: netip.MustParseAddrPort("8.8.8.8:53"), lConn: &net.UDPConn{}}
	err := c.writeCachedResponse(cached, reqId, req, nil)
	vs.Assert("the cached reply is sent", err == nil && sends == 1 && len(sent) == n)
	ok := sent[0] == byte(reqId>>8) && sent[1] == byte(reqId)
	for i := 2; i < n; i++ {
		ok = ok && sent[i] == orig[i]
	}
	vs.Assert("reply carries the client's ID and otherwise the cached answer", ok)
	same := true
	for i := 0; i < n; i++ {
		same = same && cached[i] == orig[i]
	}
	vs.Assert("the cached bytes are not modified", same)
	vs.Assert("reply goes from the queried server address to the client", from == req.realDst && to == req.realSrc)
}

// ---- UDP upstream: only a datagram with the request's ID is taken as its answer ----

type c09UpConn struct {
	datagrams [][]byte
	next      int
	wrote     []byte
}

type c09Timeout struct{}

func (c09Timeout) Error() string   { return "i/o timeout" }
func (c09Timeout) Timeout() bool   { return true }
func (c09Timeout) Temporary() bool { return true }

func (c *c09UpConn) Read(p []byte) (int, error) {
	if c.next >= len(c.datagrams) {
		return 0, c09Timeout{}
	}
	n := copy(p, c.datagrams[c.next])
	c.next++
	return n, nil
}
func (c *c09UpConn) Write(p []byte) (int, error)        { c.wrote = append([]byte{}, p...); return len(p), nil }
func (c *c09UpConn) Close() error                       { return nil }
func (c *c09UpConn) SetDeadline(t time.Time) error      { return nil }
func (c *c09UpConn) SetReadDeadline(t time.Time) error  { return nil }
func (c *c09UpConn) SetWriteDeadline(t time.Time) error { return nil }

func c09Answer(id uint16, name string) []byte {
	m := new(dnsmessage.Msg)
	m.Question = []dnsmessage.Question{{Name: name, Qtype: dnsmessage.TypeA, Qclass: dnsmessage.ClassINET}}
	m.RecursionDesired = true
	m.Response = true
	m.Answer = []dnsmessage.RR{&dnsmessage.A{Hdr: dnsmessage.RR_Header{Name: name, Rrtype: dnsmessage.TypeA, Class: dnsmessage.ClassINET, Ttl: 60}, A: net.IPv4(1, 2, 3, 4).To4()}}
	b, err := m.Pack()
	if err != nil {
		vs.Fail("pack")
	}
	b[0], b[1] = byte(id>>8), byte(id)
	return b
}

// Verif_C09_udp_upstream_id: the upstream socket delivers up to three datagrams with arbitrary IDs,
// each echoing either the question asked (possibly in another letter case) or another one (late
// answers to earlier queries that used the same socket, duplicates), before or instead of the real
// answer: ForwardDNS returns exactly the first datagram that carries the request's ID and answers
// the request's question, and an error if there is none - a reply to another question is never
// taken for the answer, even under the right ID.
func Verif_C09_udp_upstream_id() {
	rid := vs.U16("request.id")
	n := 1 + vs.Choice("datagrams", 3)
	conn := &c09UpConn{}
	ids := make([]uint16, n)
	same := make([]bool, n)
	names := []string{"real.example.", "late.example.", "REAL.Example."}
	for i := 0; i < n; i++ {
		tag := "datagram" + string(rune('0'+i))
		ids[i] = vs.U16(tag + ".id")
		k := vs.Choice(tag+".question", len(names))
		same[i] = k != 1
		conn.datagrams = append(conn.datagrams, c09Answer(ids[i], names[k]))
	}
	d := &DoUDP{profile: UdpLifecycleProfile{Kind: UdpLifecycleKindDnsTransactional}}
	d.pool = newUdpConnPool(4, 4, func(ctx context.Context) (netproxy.Conn, error) { return conn, nil })
	q := new(dnsmessage.Msg)
	q.Question = []dnsmessage.Question{{Name: "real.example.", Qtype: dnsmessage.TypeA, Qclass: dnsmessage.ClassINET}}
	q.RecursionDesired = true
	data, _ := q.Pack()
	data[0], data[1] = byte(rid>>8), byte(rid)
	msg, err := d.ForwardDNS(context.Background(), data)
	first := -1
	for i := n - 1; i >= 0; i-- {
		if ids[i] == rid && same[i] {
			first = i
		}
	}
	if first < 0 {
		vs.Assert("no datagram with the request's ID and question: no answer is made up", err != nil && msg == nil)
		return
	}
	vs.Assert("the datagram carrying the request's ID is returned", err == nil && msg != nil && msg.Id == rid)
	vs.Assert("and it answers the question that was asked", len(msg.Question) == 1 && (msg.Question[0].Name == "real.example." || msg.Question[0].Name == "REAL.Example."))
	vs.Assert("and it is the first such datagram", conn.next == first+1)
}

// ---- concurrent identical questions: one resolution, every waiter answered under its own ID ----

type c09Writer struct {
	ids  []uint16 // the ID of each message at the moment it was handed over
	msgs []*dnsmessage.Msg
}

func (w *c09Writer) LocalAddr() net.Addr  { return nil }
func (w *c09Writer) RemoteAddr() net.Addr { return nil }
func (w *c09Writer) WriteMsg(m *dnsmessage.Msg) error {
	w.ids = append(w.ids, m.Id)
	w.msgs = append(w.msgs, m)
	return nil
}
func (w *c09Writer) Write(b []byte) (int, error) { return len(b), nil }
func (w *c09Writer) Close() error                { return nil }
func (w *c09Writer) TsigStatus() error           { return nil }
func (w *c09Writer) TsigTimersOnly(bool)         {}
func (w *c09Writer) Hijack()                     {}

// Verif_C09_singleflight: two clients ask the same uncached question at the same time with
// arbitrary transaction IDs; the upstream answer is one dae does not cache (NXDOMAIN). Under every
// interleaving at blocking operations (the resolution itself yields): one upstream resolution;
// each client gets exactly one reply, under its own ID, for its question; and the two replies are
// separate messages - a waiter's reply is never the object another waiter (or the resolver)
// still writes to.
func Verif_C09_singleflight() {
	vs.Schedules(0)
	c08Install()
	c := c08Controller(false, 60, 100, nil)
	c.runtime().routing = &dns.Dns{}
	up := &dns.Upstream{Scheme: "udp", Hostname: "a", Port: 53}
	vs.Replace("(*github.com/daeuniverse/dae/component/dns.Dns).RequestSelect",
		func(s *dns.Dns, ctx context.Context, qname string, qtype uint16) (consts.DnsRequestOutboundIndex, *dns.Upstream, error) {
			return 0, up, nil
		})
	resolutions := 0
	var shared *dnsmessage.Msg
	vs.Replace("(*github.com/daeuniverse/dae/control.DnsController).resolveForSingleflight",
		func(c *DnsController, ctx context.Context, m *dnsmessage.Msg, req *udpRequest, idx consts.DnsRequestOutboundIndex, u *dns.Upstream, rk, bk string) (*dnsmessage.Msg, error) {
			resolutions++
			vs.Yield() // the upstream takes its time: the other client's query arrives meanwhile
			r := c08Query("nx.example.com.")
			r.Response = true
			r.Rcode = dnsmessage.RcodeNameError
			r.Id = m.Id
			shared = r
			return r, nil
		})
	ids := [2]uint16{vs.U16("client0.id"), vs.U16("client1.id")}
	var ws [2]*c09Writer
	var errs [2]error
	for i := 0; i < 2; i++ {
		i := i
		ws[i] = &c09Writer{}
		go func() {
			q := c08Query("nx.example.com.")
			q.Id = ids[i]
			errs[i] = c.HandleWithResponseWriter_(context.Background(), q, nil, ws[i])
		}()
	}
	vs.Join()
	vs.Assert("both clients are served", errs[0] == nil && errs[1] == nil && len(ws[0].msgs) == 1 && len(ws[1].msgs) == 1)
	vs.Assert("each reply carries its own client's transaction ID", ws[0].ids[0] == ids[0] && ws[1].ids[0] == ids[1])
	vs.Assert("each reply answers the client's question", len(ws[0].msgs[0].Question) == 1 && ws[0].msgs[0].Question[0].Name == "nx.example.com." && ws[1].msgs[0].Question[0].Name == "nx.example.com.")
	if resolutions == 1 {
		vs.Reach("coalesced")
		vs.Assert("waiters of one resolution get separate reply messages", ws[0].msgs[0] != ws[1].msgs[0] && ws[0].msgs[0] != shared && ws[1].msgs[0] != shared)
	}
	vs.Assert("at most one upstream resolution per waiter, one when they coincide", resolutions >= 1 && resolutions <= 2)
}

// ---- pipelined TCP upstream: a reply reaches only the request whose ID it carries ----

type c09Stream struct {
	in     chan []byte // bytes the upstream sends, in arbitrary chunks
	rest   []byte
	frames [][]byte // frames dae wrote (length prefix stripped)
	closed bool
	wake   chan struct{}
}

func (c *c09Stream) Read(p []byte) (int, error) {
	if len(c.rest) == 0 {
		select {
		case b, ok := <-c.in:
			if !ok {
				return 0, io.EOF
			}
			c.rest = b
		case <-c.wake:
			return 0, io.ErrClosedPipe
		}
	}
	n := copy(p, c.rest)
	c.rest = c.rest[n:]
	return n, nil
}
func (c *c09Stream) Write(p []byte) (int, error) {
	if c.closed {
		return 0, io.ErrClosedPipe // as a closed socket does
	}
	c.frames = append(c.frames, append([]byte{}, p[2:]...))
	return len(p), nil
}
func (c *c09Stream) Close() error {
	if !c.closed {
		c.closed = true
		close(c.wake)
	}
	return nil
}
func (c *c09Stream) SetDeadline(t time.Time) error      { return nil }
func (c *c09Stream) SetReadDeadline(t time.Time) error  { return nil }
func (c *c09Stream) SetWriteDeadline(t time.Time) error { return nil }

func c09Frame(id uint16, name string) []byte {
	b := c09Answer(id, name)
	return append([]byte{byte(len(b) >> 8), byte(len(b))}, b...)
}

// Verif_C09_pipelined: two queries share one pipelined TCP upstream connection. The upstream first
// sends a reply under an arbitrary transaction ID that is neither query's (a late answer to a query
// long gone, garbage, an ID the connection never issued), then the two genuine replies in either
// order: each query gets exactly the reply sent under its own ID; the stray reply reaches nobody.
func Verif_C09_pipelined() {
	vs.Schedules(0)
	st := &c09Stream{in: make(chan []byte, 8), wake: make(chan struct{})}
	pc := newPipelinedConn(st)
	names := []string{"a.example.", "b.example."}
	var got [2]*dnsmessage.Msg
	var errs [2]error
	for i := 0; i < 2; i++ {
		i := i
		go func() {
			q := new(dnsmessage.Msg)
			q.Question = []dnsmessage.Question{{Name: names[i], Qtype: dnsmessage.TypeA, Qclass: dnsmessage.ClassINET}}
			data, _ := q.Pack()
			got[i], errs[i] = pc.RoundTrip(context.Background(), data)
		}()
	}
	vs.Join() // both requests are on the wire, both waiting
	vs.Assert("both requests were written", len(st.frames) == 2)
	ids := [2]uint16{}
	for _, f := range st.frames {
		m := new(dnsmessage.Msg)
		if m.Unpack(f) != nil || len(m.Question) != 1 {
			vs.Fail("request frame unreadable")
		}
		for i := range names {
			if m.Question[0].Name == names[i] {
				ids[i] = m.Id
			}
		}
	}
	vs.Assert("in-flight requests carry different IDs", ids[0] != ids[1])
	// the stray ID: one the connection never issued - among them the two that differ from a genuine
	// ID only above the 12 bits the pending table is indexed by
	stray := []uint16{ids[0] + dnsPipelineMaxIDs, ids[1] + dnsPipelineMaxIDs, 7, dnsPipelineMaxIDs - 1, 65535}[vs.Choice("stray.id", 5)]
	vs.Assume(stray != ids[0] && stray != ids[1])
	st.in <- c09Frame(stray, "evil.example.")
	first := vs.Choice("genuineOrder", 2)
	st.in <- c09Frame(ids[first], names[first])
	st.in <- c09Frame(ids[1-first], names[1-first])
	vs.Join()
	for i := range names {
		ok := errs[i] == nil && got[i] != nil && len(got[i].Question) == 1 && got[i].Question[0].Name == names[i]
		vs.Assert("each query gets the reply sent under its own ID, never the stray one", ok)
	}
}

// Verif_C09_pipelined_cancel: a query on a pipelined upstream connection is abandoned by its client
// (context cancelled) after it went out; another client's query then uses the same connection
// object, and the upstream answers the abandoned query late, under the ID it was sent with, before
// answering the second: the second client never receives the answer to the first one's question
// (transaction IDs are reused as soon as they are free).
func Verif_C09_pipelined_cancel() {
	vs.Schedules(0)
	st := &c09Stream{in: make(chan []byte, 8), wake: make(chan struct{})}
	pc := newPipelinedConn(st)
	names := []string{"a.example.", "b.example."}
	pack := func(name string) []byte {
		q := new(dnsmessage.Msg)
		q.Question = []dnsmessage.Question{{Name: name, Qtype: dnsmessage.TypeA, Qclass: dnsmessage.ClassINET}}
		data, _ := q.Pack()
		return data
	}
	frameID := func(f []byte) uint16 {
		m := new(dnsmessage.Msg)
		if m.Unpack(f) != nil {
			vs.Fail("request frame unreadable")
		}
		return m.Id
	}
	var got [2]*dnsmessage.Msg
	var errs [2]error
	ctx1, cancel := context.WithCancel(context.Background())
	go func() { got[0], errs[0] = pc.RoundTrip(ctx1, pack(names[0])) }()
	vs.Join() // on the wire, waiting
	vs.Assert("the first request was written", len(st.frames) == 1)
	id1 := frameID(st.frames[0])
	cancel()
	vs.Join()
	vs.Assert("the abandoned query returns with an error", errs[0] != nil && got[0] == nil)
	go func() { got[1], errs[1] = pc.RoundTrip(context.Background(), pack(names[1])) }()
	vs.Join()
	st.in <- c09Frame(id1, names[0]) // the late answer to the abandoned query
	if len(st.frames) == 2 {
		st.in <- c09Frame(frameID(st.frames[1]), names[1])
	}
	vs.Join()
	vs.Assert("no query receives the late answer to another client's question",
		got[1] == nil || (len(got[1].Question) == 1 && got[1].Question[0].Name == names[1]))
	vs.Assert("the second query ends: answered or failed, not left waiting", got[1] != nil || errs[1] != nil)
}

// Verif_C09_forwarder_idle_evict: the janitor's idle eviction of a cached upstream forwarder races
// with a query that has just looked the forwarder up (every interleaving with up to two
// preemptions): the forwarder is never closed under a query that was admitted to it, and it is
// closed at most once.
func Verif_C09_forwarder_idle_evict() {
	vs.Schedules(2)
	vs.Assume(time.Now().After(time.Unix(1000, 0)))
	f := &c09Forwarder{}
	c := &DnsController{dnsControllerStore: newDnsControllerStore()}
	c.dnsForwarderIdleTTL = time.Nanosecond
	up := &dns.Upstream{Scheme: "udp", Hostname: "a", Port: 53}
	arg := &dialArgument{}
	entry := newCachedDnsForwarder(f, time.Now())
	entry.lastUsedNano.Store(1) // idle for a long time
	c.dnsForwarderCache.Store(newDnsForwarderKey(up, arg), entry)
	go func() { // a query
		e, err := c.getOrCreateDnsForwarder(up, arg)
		if err != nil || e != entry {
			return // the entry was already gone: the query builds its own forwarder (not modelled here)
		}
		if e.beginUse() {
			f.inUse++
			vs.Yield()
			vs.Assert("an admitted query never sees its forwarder closed", f.closes == 0)
			f.inUse--
			e.endUse()
		}
	}()
	go func() { c.evictIdleDnsForwarders(time.Now()) }() // the janitor
	vs.Join()
	vs.Assert("never closed while in use", !f.closedBusy)
	vs.Assert("closed at most once", f.closes <= 1)
}
