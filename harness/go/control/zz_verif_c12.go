//go:build verif

package control

import (
	"net/netip"

	"github.com/daeuniverse/outbound/pool"
	obbytes "github.com/daeuniverse/outbound/pool/bytes"

	"github.com/daeuniverse/dae/pkg/trie"
	vs "github.com/daeuniverse/dae/zz_vs"
)

// c12Covers is the specification of CIDR containment on the 128-bit (IPv4-mapped) form:
// the first `bits` bits of addr and probe are equal.
func c12Covers(addr [16]byte, bits int, probe [16]byte) bool {
	var diff byte
	for i := 0; i < 16; i++ {
		nb := bits - i*8
		if nb <= 0 {
			break
		}
		mask := byte(0xff)
		if nb < 8 {
			mask = byte(0xff << uint(8-nb))
		}
		diff |= (addr[i] ^ probe[i]) & mask
	}
	return diff == 0
}

// c12KeyCovers is the kernel LPM-trie rule applied to a key as it lies in memory: the first
// PrefixLen bits (most significant bit of each byte first) of the key's data bytes equal those
// of the looked-up address bytes. Data words are stored in native (little-endian) byte order.
func c12KeyCovers(k _bpfLpmKey, probe [16]byte) bool {
	var mem [16]byte
	for i := 0; i < 4; i++ {
		w := k.Data[i]
		mem[i*4+0] = byte(w)
		mem[i*4+1] = byte(w >> 8)
		mem[i*4+2] = byte(w >> 16)
		mem[i*4+3] = byte(w >> 24)
	}
	if k.PrefixLen > 128 {
		return false
	}
	return c12Covers(mem, int(k.PrefixLen), probe)
}

// c12WarmPool puts one buffer with spare capacity into the byte-buffer pool, as a pool that has
// been used before holds (the code under test takes its scratch buffer from there).
func c12WarmPool() {
	pool.PutBuffer(obbytes.NewBuffer(make([]byte, 0, 512)))
}

func c12Arr16(name string) (a [16]byte) {
	copy(a[:], vs.Bytes(name, 16))
	return a
}

var c12QuickBits6 = []int{0, 1, 7, 8, 9, 31, 32, 33, 64, 95, 96, 97, 104, 127, 128}
var c12QuickBits4 = []int{0, 1, 8, 9, 24, 31, 32}

// c12Bits: every length up to max in the thorough tier; the boundary lengths listed above in
// the quick tier (word, byte and family boundaries and their neighbours).
func c12Bits(tag string, max int, quick []int) int {
	if vs.Thorough() {
		return vs.Choice(tag+".bits", max+1)
	}
	n := 0
	for _, b := range quick {
		if b <= max {
			n++
		}
	}
	return quick[vs.Choice(tag+".bitsIdx", n)]
}

// c12Prefix builds a prefix of a chosen family/length with fully symbolic address bits and
// returns it with its IPv4-mapped 16-byte form and effective length on the 128-bit scale.
func c12Prefix(tag string, maxBits6, maxBits4 int) (p netip.Prefix, a16 [16]byte, eff int) {
	a16 = c12Arr16(tag + ".addr")
	if vs.Choice(tag+".is4", 2) == 0 {
		bits := c12Bits(tag, maxBits6, c12QuickBits6)
		return netip.PrefixFrom(netip.AddrFrom16(a16), bits), a16, bits
	}
	bits := c12Bits(tag, maxBits4, c12QuickBits4)
	var a4 [4]byte
	copy(a4[:], a16[12:])
	for i := 0; i < 10; i++ {
		a16[i] = 0
	}
	a16[10], a16[11] = 0xff, 0xff
	return netip.PrefixFrom(netip.AddrFrom4(a4), bits), a16, bits + 96
}

// Verif_C12_single_prefix: one prefix, every length 0..128 (v6 / IPv4-mapped literal) and
// 0..32 (v4), all 128 address bits and all 128 probe bits symbolic.
func Verif_C12_single_prefix() {
	c12WarmPool()
	p, a16, eff := c12Prefix("p", 128, 32)
	probe := c12Arr16("probe")
	want := c12Covers(a16, eff, probe)

	t, err := trie.NewTrieFromPrefixes([]netip.Prefix{p})
	vs.Assert("trie builds", err == nil)
	got := t.HasPrefix(trie.Prefix2bin128(netip.PrefixFrom(netip.AddrFrom16(probe), 128)))
	vs.Assert("userspace containment", got == want)

	k := cidrToBpfLpmKey(p)
	vs.Assert("kernel key length", int(k.PrefixLen) == eff)
	vs.Assert("kernel key containment", c12KeyCovers(k, probe) == want)
}
