//go:build verif

package control

import (
	"net/netip"

	"github.com/daeuniverse/outbound/pool"
	obbytes "github.com/daeuniverse/outbound/pool/bytes"

	"github.com/daeuniverse/dae/common/consts"
	"github.com/daeuniverse/dae/component/routing"
	"github.com/daeuniverse/dae/pkg/config_parser"
	"github.com/daeuniverse/dae/pkg/trie"
	vs "github.com/daeuniverse/dae/zz_vs"
)

// c12Covers is the specification of CIDR containment on the 128-bit (IPv4-mapped) form:
// the first `bits` bits of addr and probe are equal.
func c12Covers(addr [16]byte, bits int, probe [16]byte) bool {
	var diff byte
	for i := 0; i < 16; i++ {
		nb := bits - i*8
		if nb <= 0 {
			break
		}
		mask := byte(0xff)
		if nb < 8 {
			mask = byte(0xff << uint(8-nb))
		}
		diff |= (addr[i] ^ probe[i]) & mask
	}
	return diff == 0
}

// c12KeyCovers is the kernel LPM-trie rule applied to a key as it lies in memory: the first
// PrefixLen bits (most significant bit of each byte first) of the key's data bytes equal those
// of the looked-up address bytes. Data words are stored in native (little-endian) byte order.
func c12KeyCovers(k _bpfLpmKey, probe [16]byte) bool {
	var mem [16]byte
	for i := 0; i < 4; i++ {
		w := k.Data[i]
		mem[i*4+0] = byte(w)
		mem[i*4+1] = byte(w >> 8)
		mem[i*4+2] = byte(w >> 16)
		mem[i*4+3] = byte(w >> 24)
	}
	if k.PrefixLen > 128 {
		return false
	}
	return c12Covers(mem, int(k.PrefixLen), probe)
}

// c12WarmPool puts one buffer with spare capacity into the byte-buffer pool, as a pool that has
// been used before holds (the code under test takes its scratch buffer from there).
func c12WarmPool() {
	pool.PutBuffer(obbytes.NewBuffer(make([]byte, 0, 512)))
}

func c12Arr16(name string) (a [16]byte) {
	copy(a[:], vs.Bytes(name, 16))
	return a
}

var c12QuickBits6 = []int{0, 1, 7, 8, 9, 31, 32, 33, 64, 95, 96, 97, 104, 127, 128}
var c12QuickBits4 = []int{0, 1, 8, 9, 24, 31, 32}

// c12Bits: every length up to max in the thorough tier; the boundary lengths listed above in
// the quick tier (word, byte and family boundaries and their neighbours).
func c12Bits(tag string, max int, quick []int) int {
	if vs.Thorough() {
		return vs.Choice(tag+".bits", max+1)
	}
	n := 0
	for _, b := range quick {
		if b <= max {
			n++
		}
	}
	return quick[vs.Choice(tag+".bitsIdx", n)]
}

// c12Prefix builds a prefix of a chosen family/length with fully symbolic address bits and
// returns it with its IPv4-mapped 16-byte form and effective length on the 128-bit scale.
func c12Prefix(tag string, maxBits6, maxBits4 int) (p netip.Prefix, a16 [16]byte, eff int) {
	a16 = c12Arr16(tag + ".addr")
	if vs.Choice(tag+".is4", 2) == 0 {
		bits := c12Bits(tag, maxBits6, c12QuickBits6)
		return netip.PrefixFrom(netip.AddrFrom16(a16), bits), a16, bits
	}
	bits := c12Bits(tag, maxBits4, c12QuickBits4)
	var a4 [4]byte
	copy(a4[:], a16[12:])
	for i := 0; i < 10; i++ {
		a16[i] = 0
	}
	a16[10], a16[11] = 0xff, 0xff
	return netip.PrefixFrom(netip.AddrFrom4(a4), bits), a16, bits + 96
}

// Verif_C12_single_prefix: one prefix, every length 0..128 (v6 / IPv4-mapped literal) and
// 0..32 (v4), all 128 address bits and all 128 probe bits symbolic.
func Verif_C12_single_prefix() {
	c12WarmPool()
	p, a16, eff := c12Prefix("p", 128, 32)
	probe := c12Arr16("probe")
	want := c12Covers(a16, eff, probe)

	t, err := trie.NewTrieFromPrefixes([]netip.Prefix{p})
	vs.Assert("trie builds", err == nil)
	got := t.HasPrefix(trie.Prefix2bin128(netip.PrefixFrom(netip.AddrFrom16(probe), 128)))
	vs.Assert("userspace containment", got == want)

	k := cidrToBpfLpmKey(p)
	vs.Assert("kernel key length", int(k.PrefixLen) == eff)
	vs.Assert("kernel key containment", c12KeyCovers(k, probe) == want)
}

// Verif_C12_dedup: two address conditions in one program whose prefix sets look alike to a careless
// comparison - the same numeric length and the same 16-byte form but different families, the same
// covered addresses written in the two families, equal sets, the two default routes. The builder may
// store equal sets once, but each rule must still cover exactly the addresses its own prefix covers:
// for an arbitrary destination (all 128 bits symbolic, either family) the first rule whose prefix
// contains it decides.
func Verif_C12_dedup() {
	c12WarmPool()
	consts.MaxMatchSetLen = 32 // sizes the (unused) domain matcher tables; keeps BuildUserspace short
	m4 := func(a, b, c, d byte) netip.Addr { // the IPv4-mapped IPv6 literal of a.b.c.d
		return netip.AddrFrom16([16]byte{0, 0, 0, 0, 0, 0, 0, 0, 0, 0, 0xff, 0xff, a, b, c, d})
	}
	v4 := func(a, b, c, d byte) netip.Addr { return netip.AddrFrom4([4]byte{a, b, c, d}) }
	pairs := [][2]netip.Prefix{
		{netip.PrefixFrom(v4(10, 0, 0, 0), 8), netip.PrefixFrom(m4(10, 0, 0, 0), 8)},   // same bits value, same 16 bytes, different family: really ::/8
		{netip.PrefixFrom(v4(10, 0, 0, 0), 8), netip.PrefixFrom(m4(10, 0, 0, 0), 104)}, // the same addresses in the two forms
		{netip.PrefixFrom(v4(10, 0, 0, 0), 8), netip.PrefixFrom(v4(10, 0, 0, 0), 8)},   // equal sets
		{netip.PrefixFrom(v4(0, 0, 0, 0), 0), netip.PrefixFrom(netip.IPv6Unspecified(), 0)},
		{netip.PrefixFrom(netip.IPv6Unspecified(), 96), netip.PrefixFrom(v4(0, 0, 0, 0), 0)},
	}
	pr := pairs[vs.Choice("pair", len(pairs))]
	b := &RoutingMatcherBuilder{outboundName2Id: map[string]uint8{"direct": uint8(consts.OutboundDirect), "g": 2, "h": 3},
		lpmDedup: map[uint64]lpmDedupEntry{}, referencedOutbounds: map[string]struct{}{}}
	f := &config_parser.Function{Name: consts.Function_Ip}
	vs.Assert("first rule compiles", b.addIp(f, []netip.Prefix{pr[0]}, &routing.Outbound{Name: "g"}) == nil)
	vs.Assert("second rule compiles", b.addIp(f, []netip.Prefix{pr[1]}, &routing.Outbound{Name: "h"}) == nil)
	vs.Assert("fallback compiles", b.addFallback("direct") == nil)
	m, err := b.BuildUserspace()
	vs.Assert("matcher builds", err == nil)
	cp := &ControlPlane{}
	cp.routingMatcher = m
	probe := c12Arr16("probe")
	dst := netip.AddrPortFrom(netip.AddrFrom16(probe), 443)
	if vs.Choice("probe.is4", 2) == 1 {
		for i := 0; i < 10; i++ {
			probe[i] = 0
		}
		probe[10], probe[11] = 0xff, 0xff
		dst = netip.AddrPortFrom(netip.AddrFrom4([4]byte{probe[12], probe[13], probe[14], probe[15]}), 443)
	}
	form := func(p netip.Prefix) ([16]byte, int) {
		if p.Addr().Is4() {
			return p.Addr().As16(), p.Bits() + 96
		}
		return p.Addr().As16(), p.Bits()
	}
	a0, e0 := form(pr[0])
	a1, e1 := form(pr[1])
	want := uint64(consts.OutboundDirect)
	if c12Covers(a1, e1, probe) {
		want = 3
	}
	if c12Covers(a0, e0, probe) {
		want = 2
	}
	ob, _, _, err := cp.Route(netip.MustParseAddrPort("192.168.1.2:5555"), dst, "", consts.L4ProtoType_TCP, &bpfRoutingResult{})
	vs.Assert("routing succeeds", err == nil)
	vs.Assert("each rule covers exactly the addresses of its own prefix set", uint64(ob) == want)
}

// Verif_C12_ring_index: after a reload the prefix sets live in a ring of kernel map slots that starts
// at an arbitrary offset. For every rule that refers to a stored set - destination prefixes, source
// prefixes, MAC prefixes - the index written for the kernel is (start + set index) mod ring size,
// for an arbitrary start and set index; rules of other kinds are left untouched; an index beyond the
// number of stored sets is an error.
func Verif_C12_ring_index() {
	kinds := []consts.MatchType{consts.MatchType_IpSet, consts.MatchType_SourceIpSet, consts.MatchType_Mac, consts.MatchType_Port, consts.MatchType_DomainSet}
	k := kinds[vs.Choice("rule.kind", len(kinds))]
	old := vs.U32("set.index")
	start := vs.U32("ring.start")
	count := vs.U32("sets.stored")
	vs.Assume(start < uint32(consts.MaxMatchSetLen) && count <= uint32(consts.MaxMatchSetLen))
	var rule bpfMatchSet
	rule.Type = uint8(k)
	rule.Value[0], rule.Value[1], rule.Value[2], rule.Value[3] = byte(old), byte(old>>8), byte(old>>16), byte(old>>24)
	rule.Value[4] = vs.U8("value.byte4")
	out, err := rewriteKernRulesWithRingLpmIndex([]bpfMatchSet{rule}, start, count)
	refers := k == consts.MatchType_IpSet || k == consts.MatchType_SourceIpSet || k == consts.MatchType_Mac
	if refers && old >= count {
		vs.Assert("an index beyond the stored sets is an error", err != nil)
		return
	}
	vs.Assert("rewriting succeeds", err == nil && len(out) == 1)
	got := uint32(out[0].Value[0]) | uint32(out[0].Value[1])<<8 | uint32(out[0].Value[2])<<16 | uint32(out[0].Value[3])<<24
	if refers {
		vs.Assert("a rule referring to a stored set points at its ring slot", got == (start+old)%uint32(consts.MaxMatchSetLen))
	} else {
		vs.Assert("other rules are left as they are", got == old)
	}
	vs.Assert("the rest of the rule is untouched", out[0].Value[4] == rule.Value[4] && out[0].Type == rule.Type)
}
