//go:build verif

package control

import (
	"time"

	"github.com/daeuniverse/dae/common/consts"
	"github.com/daeuniverse/dae/component/outbound"
	"github.com/daeuniverse/dae/component/outbound/dialer"
	vs "github.com/daeuniverse/dae/zz_vs"
	D "github.com/daeuniverse/outbound/dialer"
	"github.com/daeuniverse/outbound/protocol/direct"
	"github.com/sirupsen/logrus"
)

// Verif_C16_shared_floor: the reload hand-over (ControlPlane.InheritDialerHealthFrom) over two
// groups that share a node - A={X,Z}, B={X,Y}, in either configuration order - with an arbitrary
// subset of the three nodes dead for tcp4 in the old generation: afterwards every group has a
// selectable tcp4 node (the last known state is handed over, and a group left empty by it keeps one
// node as a floor - also when a node it shares with a later group is restored again).
func Verif_C16_shared_floor() {
	logger := logrus.New()
	opt := &dialer.GlobalOption{Log: logger, CheckInterval: 30 * time.Second, CheckTolerance: time.Second}
	mk := func(name string) *dialer.Dialer {
		return dialer.NewDialer(direct.SymmetricDirect, opt, dialer.InstanceOption{}, &dialer.Property{Property: D.Property{Name: name}})
	}
	grp := func(name string, ds ...*dialer.Dialer) *outbound.DialerGroup {
		annos := make([]*dialer.Annotation, len(ds))
		for i := range annos {
			annos[i] = &dialer.Annotation{}
		}
		return outbound.NewDialerGroup(opt, name, ds, annos, outbound.DialerSelectionPolicy{Policy: consts.DialerSelectionPolicy_MinLastLatency}, func(bool, *dialer.NetworkType, bool) {})
	}
	oldN := []*dialer.Dialer{mk("X"), mk("Y"), mk("Z")}
	newN := []*dialer.Dialer{mk("X"), mk("Y"), mk("Z")}
	oldA, oldB := grp("A", oldN[0], oldN[2]), grp("B", oldN[0], oldN[1])
	newA, newB := grp("A", newN[0], newN[2]), grp("B", newN[0], newN[1])
	tcp4 := &dialer.NetworkType{L4Proto: consts.L4ProtoStr_TCP, IpVersion: consts.IpVersionStr_4}
	for i, d := range oldN {
		if vs.Bool("old." + []string{"X", "Y", "Z"}[i] + ".dead") {
			d.ReportUnavailableForced(tcp4, nil)
		}
	}
	olds, news := []*outbound.DialerGroup{oldA, oldB}, []*outbound.DialerGroup{newA, newB}
	if vs.Bool("groupB.first") {
		olds, news = []*outbound.DialerGroup{oldB, oldA}, []*outbound.DialerGroup{newB, newA}
	}
	oldCP := &ControlPlane{controlPlaneGenerationState: controlPlaneGenerationState{outbounds: olds}}
	newCP := &ControlPlane{controlPlaneGenerationState: controlPlaneGenerationState{outbounds: news}}
	newCP.InheritDialerHealthFrom(oldCP)
	for _, g := range news {
		d, _, err := g.Select(tcp4, true)
		vs.Assert("every non-empty group keeps a selectable node after the reload hand-over", err == nil && d != nil)
	}
}
