//go:build verif

package control

import (
	"context"
	"net"

	"github.com/daeuniverse/dae/common/consts"
	"github.com/daeuniverse/dae/component/dns"
	dnsmessage "github.com/miekg/dns"
	vs "github.com/daeuniverse/dae/zz_vs"
)

// ---- a response writer that records what the client is sent ----

type c07Writer struct {
	msgs []*dnsmessage.Msg
}

func (w *c07Writer) LocalAddr() net.Addr         { return nil }
func (w *c07Writer) RemoteAddr() net.Addr        { return nil }
func (w *c07Writer) WriteMsg(m *dnsmessage.Msg) error { w.msgs = append(w.msgs, m); return nil }
func (w *c07Writer) Write(b []byte) (int, error) { return len(b), nil }
func (w *c07Writer) Close() error                { return nil }
func (w *c07Writer) TsigStatus() error           { return nil }
func (w *c07Writer) TsigTimersOnly(bool)         {}
func (w *c07Writer) Hijack()                     {}

// Verif_C07_reject_ignores_cache: a question routed to reject gets an empty answer although a live
// cached answer exists; the cached family is dropped before anything could be served from it and
// no upstream is contacted.
func Verif_C07_reject_ignores_cache() {
	c08Install()
	c := c08Controller(vs.Bool("optimistic_cache"), 60, 100, nil)
	c.runtime().routing = &dns.Dns{}
	ttl := vs.IntRange("ttl", 1, 3600)
	key := c.cacheKey("example.com.", dnsmessage.TypeA)
	scoped := vs.Bool("scopedEntry")
	storeKey := key
	if scoped {
		storeKey = key + "|upstream@x"
	}
	err := c.UpdateDnsCacheTtlWithKey(storeKey, "example.com.", dnsmessage.TypeA, c08Answer("example.com.", uint32(ttl)), nil, nil, ttl)
	vs.Assert("insert succeeds", err == nil)
	lookups, sends := 0, 0
	vs.Replace("(*github.com/daeuniverse/dae/component/dns.Dns).RequestSelect",
		func(s *dns.Dns, ctx context.Context, qname string, qtype uint16) (consts.DnsRequestOutboundIndex, *dns.Upstream, error) {
			return consts.DnsRequestOutboundIndex_Reject, nil, nil
		})
	vs.Replace("(*github.com/daeuniverse/dae/control.DnsController).resolveForSingleflight",
		func(c *DnsController, ctx context.Context, m *dnsmessage.Msg, req *udpRequest, idx consts.DnsRequestOutboundIndex, up *dns.Upstream, rk, bk string) (*dnsmessage.Msg, error) {
			sends++
			return m, nil
		})
	w := &c07Writer{}
	q := c08Query("Example.com.")
	q.Id = vs.U16("client.id")
	_ = lookups
	err = c.HandleWithResponseWriter_(context.Background(), q, nil, w)
	vs.Assert("handled", err == nil)
	vs.Assert("exactly one reply", len(w.msgs) == 1)
	vs.Assert("reply to a rejected question has an empty answer", len(w.msgs[0].Answer) == 0 && w.msgs[0].Response && w.msgs[0].Rcode == dnsmessage.RcodeSuccess)
	vs.Assert("reply carries the client's id", w.msgs[0].Id == q.Id)
	vs.Assert("no upstream is contacted for a rejected question", sends == 0)
	_, still := c.dnsCache.Load(storeKey)
	vs.Assert("cached answers of the rejected name are dropped", !still)
}

// Verif_C07_reask_bound: whatever the response rules answer (accept, reject or ask another
// upstream, chosen adversarially at every step), the number of upstream queries for one question
// is bounded by MaxDnsLookupDepth and the recursion ends.
func Verif_C07_reask_bound() {
	c08Install()
	c := c08Controller(false, 60, 100, nil)
	rt := c.runtime()
	rt.routing = &dns.Dns{}
	sends := 0
	rt.bestDialerChooser = func(ctx context.Context, req *udpRequest, upstream *dns.Upstream) (*dialArgument, error) {
		return &dialArgument{l4proto: consts.L4ProtoStr_UDP, ipversion: consts.IpVersionStr_4}, nil
	}
	vs.Replace("(*github.com/daeuniverse/dae/control.DnsController).forwardWithFallback",
		func(c *DnsController, ctx context.Context, req *udpRequest, upstream *dns.Upstream, arg *dialArgument, data []byte) (*dnsmessage.Msg, *dialArgument, error) {
			sends++
			m := c08Query("example.com.")
			m.Response = true
			m.Answer = c08Answer("example.com.", 30)
			return m, arg, nil
		})
	ups := []*dns.Upstream{{Scheme: "udp", Hostname: "a", Port: 53}, {Scheme: "udp", Hostname: "b", Port: 53}}
	step := 0
	vs.Replace("(*github.com/daeuniverse/dae/component/dns.Dns).ResponseSelect",
		func(s *dns.Dns, ctx context.Context, msg *dnsmessage.Msg, from *dns.Upstream) (consts.DnsResponseOutboundIndex, *dns.Upstream, error) {
			step++
			switch vs.Choice("verdict"+string(rune('0'+step)), 4) {
			case 0:
				return consts.DnsResponseOutboundIndex_Accept, nil, nil
			case 1:
				return consts.DnsResponseOutboundIndex_Reject, nil, nil
			case 2:
				return 0, ups[0], nil
			}
			return 1, ups[1], nil
		})
	key := c.cacheKey("example.com.", dnsmessage.TypeA)
	err := c.dialSend(context.Background(), 0, &udpRequest{}, []byte{0, 0}, 7, ups[0], false, nil, key, key)
	vs.Assert("upstream queries per question are bounded", sends <= MaxDnsLookupDepth)
	if err != nil {
		vs.Assert("the only failure is the depth limit", sends == MaxDnsLookupDepth)
	} else {
		v, ok := c.dnsCache.Load(key)
		vs.Assert("the accepted or emptied answer is cached under the question's key", ok && v.(*DnsCache) != nil)
	}
}
