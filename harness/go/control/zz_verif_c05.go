//go:build verif

package control

import (
	"bufio"
	"context"
	"io"
	"net"
	"net/netip"
	"time"

	"github.com/daeuniverse/dae/component/sniffing"
	"github.com/daeuniverse/outbound/netproxy"
	vs "github.com/daeuniverse/dae/zz_vs"
)

// c05Conn is one end of a proxied TCP connection as the relay sees it: segments arrive on a channel
// (closed = the peer shut down its sending side), writes are recorded, a read deadline in the past
// or Close unblocks a pending read with an error - as a socket does.
type c05Conn struct {
	in          chan []byte
	rest        []byte
	wake        chan struct{}
	woken       bool
	out         []byte
	closeWrites int
	closed      bool
	deadlines   []time.Time
	writesAfterCloseWrite bool
	writes      int
	failWriteAt int // 1-based index of the write that fails (0: never)
	detecting   bool // reads with an armed deadline time out when nothing has arrived (detection windows)
	inClosed    bool // the peer has shut down its sending side (set by closeIn)
	eofWithLast bool // like TLS / AEAD streams: the final bytes are returned together with io.EOF when the end is already known
}

func (c *c05Conn) closeIn() { c.inClosed = true; close(c.in) }

type c05Timeout struct{}

func (c05Timeout) Error() string   { return "i/o timeout" }
func (c05Timeout) Timeout() bool   { return true }
func (c05Timeout) Temporary() bool { return true }

func c05New() *c05Conn { return &c05Conn{in: make(chan []byte, 8), wake: make(chan struct{})} }

func (c *c05Conn) Read(p []byte) (int, error) {
	if c.detecting && len(c.rest) == 0 && len(c.in) == 0 && c.armed() {
		// protocol-detection phase: nothing has arrived and a deadline is armed: the window passes
		return 0, c05Timeout{}
	}
	if len(c.rest) == 0 {
		select {
		case seg, ok := <-c.in:
			if !ok {
				return 0, io.EOF
			}
			c.rest = seg
		case <-c.wake:
			return 0, c05Timeout{}
		}
	}
	n := copy(p, c.rest)
	c.rest = c.rest[n:]
	if c.eofWithLast && len(c.rest) == 0 && c.inClosed && len(c.in) == 0 {
		return n, io.EOF
	}
	return n, nil
}
func (c *c05Conn) Write(p []byte) (int, error) {
	if c.closed {
		return 0, net.ErrClosed
	}
	c.writes++
	if c.failWriteAt != 0 && c.writes >= c.failWriteAt {
		return 0, net.ErrClosed // the peer reset the connection
	}
	if c.closeWrites > 0 {
		c.writesAfterCloseWrite = true
	}
	c.out = append(c.out, p...)
	return len(p), nil
}
func (c *c05Conn) CloseWrite() error { c.closeWrites++; return nil }
func (c *c05Conn) Close() error {
	c.closed = true
	c.unblock()
	return nil
}
func (c *c05Conn) armed() bool {
	return len(c.deadlines) > 0 && !c.deadlines[len(c.deadlines)-1].IsZero() && !c.woken
}
func (c *c05Conn) unblock() {
	if !c.woken {
		c.woken = true
		close(c.wake)
	}
}
func (c *c05Conn) LocalAddr() net.Addr  { return nil }
func (c *c05Conn) RemoteAddr() net.Addr { return nil }
func (c *c05Conn) SetDeadline(t time.Time) error { return c.SetReadDeadline(t) }
func (c *c05Conn) SetReadDeadline(t time.Time) error {
	c.deadlines = append(c.deadlines, t)
	if !t.IsZero() && t.Before(time.Unix(2, 0)) {
		c.unblock() // a deadline in the past
	}
	return nil
}
func (c *c05Conn) SetWriteDeadline(t time.Time) error { return nil }

func c05Same(a, b []byte) bool {
	same := len(a) == len(b)
	for i := 0; i < len(a) && i < len(b); i++ {
		same = same && a[i] == b[i]
	}
	return same
}

// Verif_C05_relay: the relay between a client and an upstream, the client side optionally carrying
// bytes that were read ahead for protocol detection (prefixedConn). Client and upstream each send
// two segments of arbitrary bytes and then shut down their sending side, in any order relative to
// each other and to the relay's two copy directions (every interleaving at blocking points): each
// side receives exactly the other's byte stream, each end of stream is passed on as one
// write-shutdown, nothing is written after it, and the relay ends without error.
func Verif_C05_relay() {
	vs.Schedules(0)
	vs.Assume(time.Now().After(time.Unix(1000, 0))) // the clock is arbitrary but not at the epoch: "deadline in the past" stays meaningful
	client, upstream := c05New(), c05New()
	c1, c2 := vs.Bytes("client.seg1", 3), vs.Bytes("client.seg2", 2)
	s1, s2 := vs.Bytes("upstream.seg1", 2), vs.Bytes("upstream.seg2", 3)
	var prefix []byte
	var left net.Conn = client
	wrapper := vs.Choice("clientWrapper", 4)
	switch wrapper {
	case 1: // bytes read ahead for protocol detection
		prefix = vs.Bytes("client.prefix", 4)
		left = &prefixedConn{Conn: client, prefix: prefix}
	case 2: // DNS-over-TCP detection peeked at the stream through a bufio.Reader
		bc := &bufioConn{Conn: client, reader: bufio.NewReader(client)} // the reader handleConn creates (4 KiB)
		left = bc
		// the gather path reads pending client bytes along with the peeked prefix when the source is a
		// TCP socket with data waiting: let the model socket count as one
		vs.Replace("github.com/daeuniverse/dae/control.relayGatherWriteTCPConn", func(conn netproxy.Conn) (*net.TCPConn, bool) {
			if _, is := conn.(*bufioConn); is {
				return &net.TCPConn{}, true
			}
			return nil, false
		})
		vs.Replace("github.com/daeuniverse/dae/control.tcpConnHasPendingReadData", func(conn *net.TCPConn) (bool, error) {
			return len(client.in) > 0, nil
		})
	case 3: // the sniffer on top of read-ahead bytes that are neither TLS nor HTTP
		prefix = []byte{0, 1, 2, 3}
		left = sniffing.NewConnSniffer(&prefixedConn{Conn: client, prefix: prefix}, 100*time.Millisecond)
	}
	wantUp := append(append(append([]byte{}, prefix...), c1...), c2...)
	wantDown := append(append([]byte{}, s1...), s2...)
	// either side may be a stream that hands out its last bytes together with the end-of-stream mark
	client.eofWithLast = vs.Choice("eofWithLastBytes", 2) == 1
	upstream.eofWithLast = client.eofWithLast
	go func() { // the client
		client.in <- c1
		client.in <- c2
		client.closeIn()
	}()
	go func() { // the upstream
		upstream.in <- s1
		upstream.in <- s2
		upstream.closeIn()
	}()
	var err error
	done := false
	go func() {
		switch w := left.(type) {
		case *bufioConn:
			_, _ = w.reader.Peek(2) // what the DNS fast-path detection does before giving up
		case *sniffing.ConnSniffer:
			_, _ = w.SniffTcp() // not TLS / HTTP: sniffing gives up, the relay goes on
		}
		err = RelayTCPContextWithRecords(context.Background(), left, upstream, nil, nil)
		done = true
	}()
	vs.Join()
	vs.Assert("the relay finishes once both sides have shut down", done)
	if err != nil {
		vs.Note("relay error: " + err.Error())
	}
	vs.Assert("a clean exchange ends without error", err == nil)
	vs.Assert("upstream receives exactly the client's bytes (read-ahead included)", c05Same(upstream.out, wantUp))
	vs.Assert("client receives exactly the upstream's bytes", c05Same(client.out, wantDown))
	vs.Assert("each end of stream is passed on as one write-shutdown", upstream.closeWrites == 1 && client.closeWrites == 1)
	vs.Assert("nothing is written after the write-shutdown", !upstream.writesAfterCloseWrite && !client.writesAfterCloseWrite)
}

// Verif_C05_relay_error: the upstream resets the connection at an arbitrary write while the client is
// still sending and the upstream side is otherwise silent: the relay does not hang - it reports the
// error, and both connections have been closed so that neither peer is left waiting.
func Verif_C05_relay_error() {
	vs.Schedules(0)
	vs.Assume(time.Now().After(time.Unix(1000, 0)))
	client, upstream := c05New(), c05New()
	upstream.failWriteAt = 1 + vs.Choice("failingWrite", 2)
	go func() {
		client.in <- vs.Bytes("client.seg1", 2)
		client.in <- vs.Bytes("client.seg2", 2)
		// the client keeps the connection open
	}()
	var err error
	done := false
	go func() {
		err = RelayTCPContextWithRecords(context.Background(), client, upstream, nil, nil)
		done = true
	}()
	vs.Join()
	vs.Assert("the relay ends although neither side sent end of stream", done)
	vs.Assert("the failure is reported", err != nil)
	vs.Assert("both connections are closed", client.closed && upstream.closed)
	vs.Assert("nothing after the failing write reached the upstream", len(upstream.out) == 2*(upstream.failWriteAt-1))
}

// Verif_C05_prefetch: the read-ahead for protocol detection (prefetchForTcpSniff) on two client
// connections one after the other, then the relay of the first: the upstream of the first
// connection receives exactly the first client's bytes - the bytes read ahead are that
// connection's own, whatever later connections did with the probe buffer - the detection read
// is bounded by one deadline that is cleared afterwards, and a client that sends nothing in the
// window is relayed untouched.
func Verif_C05_prefetch() {
	vs.Schedules(0)
	vs.Assume(time.Now().After(time.Unix(1000, 0)))
	a, b, upstream := c05New(), c05New(), c05New()
	a1 := vs.Bytes("a.seg1", 3+vs.Choice("a.len", 2)*13) // 3 or 16 bytes: below and at the probe size
	a2 := vs.Bytes("a.seg2", 2)
	b1 := vs.Bytes("b.seg1", 5)
	early := vs.Choice("a.sendsEarly", 2) == 1
	if early {
		a.in <- a1
	}
	b.in <- b1
	a.detecting, b.detecting = true, true
	wrappedA, preA, readyA, errA := prefetchForTcpSniff(a, 100*time.Millisecond, tcpSniffPrefetchBytes)
	_, _, _, _ = prefetchForTcpSniff(b, 100*time.Millisecond, tcpSniffPrefetchBytes)
	a.detecting = false
	vs.Assert("the probe itself does not fail", errA == nil)
	if early {
		vs.Assert("early bytes are reported as read ahead", readyA && c05Same(preA, a1))
	} else {
		vs.Assert("no early data: the connection is handed on as it is", !readyA && wrappedA == net.Conn(a))
		a.in <- a1
	}
	vs.Assert("the detection read was bounded by a deadline that is cleared afterwards",
		len(a.deadlines) == 2 && !a.deadlines[0].IsZero() && a.deadlines[1].IsZero())
	a.in <- a2
	close(a.in)
	close(upstream.in)
	err := RelayTCPContextWithRecords(context.Background(), wrappedA, upstream, nil, nil)
	vs.Join()
	want := append(append([]byte{}, a1...), a2...)
	vs.Assert("relay ends cleanly", err == nil)
	vs.Assert("the first connection's upstream receives exactly the first client's bytes", c05Same(upstream.out, want))
}

// Verif_C05_port53: a client connection to destination port 53 that does not open with a DNS query,
// taken through the real detection step of handleConn (handleTCPDnsFastPath over the bufio.Reader
// handleConn creates) and then, as handleConn does, through the relay over a bufioConn. First bytes:
// an announced length below a DNS header (arbitrary bytes), a plausible length with a body that is
// no DNS message, a well-formed DNS message that is a response, a single byte inside the detection
// window with the rest later, nothing inside the window. Detection must decline the stream, leave
// no read deadline armed on the connection (an armed one cuts the connection when it expires), and
// the upstream must receive every byte the client sent, in order.
func Verif_C05_port53() {
	vs.Schedules(0)
	vs.Assume(time.Now().After(time.Unix(1000, 0)))
	client, upstream := c05New(), c05New()
	var early, late [][]byte // what arrives inside the detection window, and after it
	switch vs.Choice("firstBytes", 5) {
	case 0:
		b := vs.Bytes("client.first", 5)
		vs.Assume(b[0] == 0 && b[1] < 12)
		early = [][]byte{b}
	case 1:
		early = [][]byte{{0, 14, 0x12, 0x34, 0x01, 0x00, 0, 1, 0, 0, 0, 0, 0, 0, 0xff, 0xff}}
	case 2: // id 0x1234, QR=1, one question "a. IN A"
		early = [][]byte{{0, 19, 0x12, 0x34, 0x81, 0x80, 0, 1, 0, 0, 0, 0, 0, 0, 1, 'a', 0, 0, 1, 0, 1}}
	case 3:
		early = [][]byte{vs.Bytes("client.first", 1)}
		late = [][]byte{vs.Bytes("client.second", 2)}
	case 4:
		late = [][]byte{vs.Bytes("client.first", 3)}
	}
	late = append(late, vs.Bytes("client.tail", 2))
	s1 := vs.Bytes("upstream.seg1", 2)
	var wantUp []byte
	for _, seg := range early {
		wantUp = append(wantUp, seg...)
		client.in <- seg
	}
	for _, seg := range late {
		wantUp = append(wantUp, seg...)
	}
	client.detecting = true
	bufReader := bufio.NewReader(client)
	cp := &ControlPlane{}
	handled, _ := cp.handleTCPDnsFastPath(context.Background(), client, bufReader,
		netip.MustParseAddrPort("10.0.0.1:4000"), netip.MustParseAddrPort("1.1.1.1:53"), &bpfRoutingResult{})
	client.detecting = false
	vs.Assert("a stream that does not open with a DNS query is left to the relay", !handled)
	vs.Assert("detection leaves no read deadline armed on the connection", !client.armed())
	left := &bufioConn{Conn: client, reader: bufReader}
	go func() {
		for _, seg := range late {
			client.in <- seg
		}
		client.closeIn()
	}()
	upstream.in <- s1 // the upstream's bytes are already waiting (its timing is the relay harness's subject)
	upstream.closeIn()
	err := RelayTCPContextWithRecords(context.Background(), left, upstream, nil, nil)
	vs.Join()
	vs.Assert("a clean exchange ends without error", err == nil)
	vs.Assert("upstream receives exactly the client's bytes, the ones detection looked at included", c05Same(upstream.out, wantUp))
	vs.Assert("client receives exactly the upstream's bytes", c05Same(client.out, s1))
	vs.Assert("each end of stream is passed on as one write-shutdown", upstream.closeWrites == 1 && client.closeWrites == 1)
}
