//go:build verif

package control

import (
	"context"
	stderrors "errors"
	"net"
	"net/netip"
	"strconv"
	"time"

	"github.com/cilium/ebpf"
	"github.com/daeuniverse/dae/component/outbound/dialer"
	"github.com/daeuniverse/outbound/netproxy"

	vs "github.com/daeuniverse/dae/zz_vs"
)

type c13Log struct {
	ran     []int // task ids in execution order
	running int
	overlap bool
}

func (l *c13Log) task(id int) UdpTask {
	return func() {
		l.running++
		if l.running > 1 {
			l.overlap = true
		}
		l.ran = append(l.ran, id)
		l.running--
	}
}

func (l *c13Log) count(id int) int {
	n := 0
	for _, x := range l.ran {
		if x == id {
			n++
		}
	}
	return n
}

func (l *c13Log) pos(id int) int {
	for i, x := range l.ran {
		if x == id {
			return i
		}
	}
	return -1
}

// Verif_C13_taskpool: two producers emit tasks for one flow key while the per-flow worker (convoy)
// may see its idle timer fire at any point: under every interleaving at blocking operations plus
// one preemption at any synchronisation operation, every accepted task runs exactly once, tasks of
// the flow do not overlap, and each producer's tasks run in the order it emitted them.
func Verif_C13_taskpool() {
	pre := 1
	if vs.Thorough() {
		pre = 2
	}
	vs.Schedules(pre)
	p := NewUdpTaskPool()
	key := UdpFlowKey{Src: netip.MustParseAddrPort("10.0.0.1:1000"), Dst: netip.MustParseAddrPort("8.8.8.8:53")}
	l := &c13Log{}
	go func() {
		p.EmitTask(key, l.task(1))
		p.EmitTask(key, l.task(2))
	}()
	go func() {
		p.EmitTask(key, l.task(3))
	}()
	vs.Join()
	for _, id := range l.ran {
		vs.Note("ran task " + strconv.Itoa(id))
	}
	vs.Assert("every accepted task ran exactly once", l.count(1) == 1 && l.count(2) == 1 && l.count(3) == 1)
	vs.Assert("tasks of one flow never run concurrently", !l.overlap)
	vs.Assert("a producer's tasks run in the order they were accepted", l.pos(1) < l.pos(2))
}

// Verif_C13_taskpool_recycle: a flow goes idle and its queue is collected while a packet of the same
// flow and one of another flow arrive: no task is lost in, or run from, a recycled channel.
func Verif_C13_taskpool_recycle() {
	vs.Schedules(1)
	p := NewUdpTaskPool()
	k1 := UdpFlowKey{Src: netip.MustParseAddrPort("10.0.0.1:1000"), Dst: netip.MustParseAddrPort("8.8.8.8:53")}
	k2 := UdpFlowKey{Src: netip.MustParseAddrPort("10.0.0.2:2000"), Dst: netip.MustParseAddrPort("8.8.4.4:53")}
	l := &c13Log{}
	p.EmitTask(k1, l.task(1))
	go func() { p.EmitTask(k1, l.task(2)) }()
	go func() { p.EmitTask(k2, l.task(3)) }()
	vs.Join()
	vs.Assert("every accepted task ran exactly once", l.count(1) == 1 && l.count(2) == 1 && l.count(3) == 1)
	vs.Assert("a flow's tasks run in the order they were accepted", l.pos(1) < l.pos(2))
}

// ---- kernel flow entries follow their owners (conn-state tuple tracker) ----

type c13Kernel struct {
	present map[bpfTuplesKey]bool
	holders map[bpfTuplesKey]int // owners that have retained the key and not yet started to release it
	badDel  bool
}

func c13InstallKernel(k *c13Kernel) {
	vs.Replace("github.com/daeuniverse/dae/control.BpfMapBatchDelete",
		func(m *ebpf.Map, keys interface{}) (int, error) {
			for _, key := range keys.([]bpfTuplesKey) {
				if k.holders[key] > 0 {
					k.badDel = true
				}
				delete(k.present, key)
			}
			return 0, nil
		})
}

func c13Core() *controlPlaneCore {
	core := &controlPlaneCore{}
	core.bpf.Store(&bpfObjects{})
	core.bpf.Load().ConnStateMap = &ebpf.Map{}
	return core
}

func c13Tuple(port uint16) bpfTuplesKey {
	return bpfTuplesKeyFromAddrPorts(netip.MustParseAddrPort("10.0.0.1:1000"), netip.AddrPortFrom(netip.MustParseAddr("8.8.8.8"), port), 17)
}

// owner: an endpoint's life with respect to one set of tuples - retain, carry traffic (the kernel
// has the entries from then on), release.
func (k *c13Kernel) owner(core *controlPlaneCore, keys []bpfTuplesKey) {
	core.RetainUdpConnStateTuples(keys)
	for _, key := range keys {
		k.present[key] = true
		k.holders[key]++
	}
	vs.Yield()
	for _, key := range keys {
		k.holders[key]--
	}
	_ = core.ReleaseUdpConnStateTuples(keys)
}

// Verif_C13_tuples: endpoints sharing a tuple come and go concurrently: the kernel entry is deleted
// only when no owner holds the tuple, and once all have gone it is gone and nothing is left tracked.
func Verif_C13_tuples() {
	vs.Schedules(1)
	k := &c13Kernel{present: map[bpfTuplesKey]bool{}, holders: map[bpfTuplesKey]int{}}
	c13InstallKernel(k)
	core := c13Core()
	k1, k2 := c13Tuple(53), c13Tuple(54)
	go k.owner(core, []bpfTuplesKey{k1})
	go k.owner(core, []bpfTuplesKey{k1, k2})
	go k.owner(core, []bpfTuplesKey{k2, k1})
	vs.Join()
	vs.Assert("no goroutine is left waiting on a deletion", vs.Parked() == 0)
	vs.Assert("a kernel entry is never deleted while an owner holds its tuple", !k.badDel)
	vs.Assert("once the last owner has gone the kernel entries are gone", !k.present[k1] && !k.present[k2])
	vs.Assert("and nothing is left in the tracker", len(core.getUdpConnStateTracker().entries) == 0)
}

// Verif_C13_tuples_handover: a reload hands an endpoint's tuples from the old generation's tracker to
// the new one while another endpoint of the old generation, holding the same tuple, closes: the
// entry survives as long as the adopted endpoint lives and is removed when it closes.
func Verif_C13_tuples_handover() {
	vs.Schedules(1)
	k := &c13Kernel{present: map[bpfTuplesKey]bool{}, holders: map[bpfTuplesKey]int{}}
	c13InstallKernel(k)
	oldCore, newCore := c13Core(), c13Core()
	k1 := c13Tuple(53)
	keys := []bpfTuplesKey{k1}
	// two endpoints of the old generation carry the tuple
	oldCore.RetainUdpConnStateTuples(keys)
	oldCore.RetainUdpConnStateTuples(keys)
	k.present[k1] = true
	k.holders[k1] = 2
	go func() { // endpoint A is adopted by the new generation, lives on, then closes
		newCore.TransferRetainedUdpConnStateTuplesFrom(oldCore, keys)
		vs.Yield()
		k.holders[k1]--
		_ = newCore.ReleaseUdpConnStateTuples(keys)
	}()
	go func() { // endpoint B closes with the old generation
		k.holders[k1]--
		_ = oldCore.ReleaseUdpConnStateTuples(keys)
	}()
	vs.Join()
	vs.Assert("no goroutine is left waiting on a deletion", vs.Parked() == 0)
	vs.Assert("nothing is left in either tracker", len(oldCore.getUdpConnStateTracker().entries) == 0 && len(newCore.getUdpConnStateTracker().entries) == 0)
	vs.Assert("once the last owner has gone the kernel entry is gone", !k.present[k1])
}

// Verif_C13_overflow: a burst for one flow larger than the per-flow channel (128) while the worker
// has not run yet: the surplus goes through the overflow FIFO (including its shrinking while it
// drains); every task runs exactly once, in the order accepted.
func Verif_C13_overflow() {
	n := []int{1, 128, 129, 257, 430}[vs.Choice("burst", 5)]
	extra := vs.Choice("late", 3) // tasks arriving after the backlog has started to drain
	p := NewUdpTaskPool()
	key := UdpFlowKey{Src: netip.MustParseAddrPort("10.0.0.1:1000"), Dst: netip.MustParseAddrPort("8.8.8.8:53")}
	l := &c13Log{}
	for i := 0; i < n; i++ {
		p.EmitTask(key, l.task(i))
	}
	vs.Join()
	for i := 0; i < extra; i++ {
		p.EmitTask(key, l.task(n+i))
	}
	vs.Join()
	ok := len(l.ran) == n+extra
	for i := 0; i < len(l.ran) && ok; i++ {
		ok = l.ran[i] == i
		if !ok {
			vs.Note("first out-of-order position " + strconv.Itoa(i) + " holds task " + strconv.Itoa(l.ran[i]))
		}
	}
	vs.Note("ran " + strconv.Itoa(len(l.ran)) + " of " + strconv.Itoa(n+extra))
	vs.Assert("every task of the burst ran exactly once, in the order accepted", ok)
}

// ---- UDP endpoint pool: one dial for concurrent first packets, failures cool down, exactly-once close ----

type c13PacketConn struct {
	in     chan []byte
	closes int
	wake   chan struct{}
	closed bool
}

func c13NewPC() *c13PacketConn { return &c13PacketConn{in: make(chan []byte, 4), wake: make(chan struct{})} }

func (c *c13PacketConn) ReadFrom(p []byte) (int, netip.AddrPort, error) {
	select {
	case b := <-c.in:
		return copy(p, b), netip.MustParseAddrPort("8.8.8.8:53"), nil
	case <-c.wake:
		return 0, netip.AddrPort{}, net.ErrClosed
	}
}
func (c *c13PacketConn) Read(p []byte) (int, error) { n, _, err := c.ReadFrom(p); return n, err }
func (c *c13PacketConn) WriteTo(p []byte, addr string) (int, error) {
	if c.closed {
		return 0, net.ErrClosed
	}
	return len(p), nil
}
func (c *c13PacketConn) Write(p []byte) (int, error) { return c.WriteTo(p, "") }
func (c *c13PacketConn) Close() error {
	c.closes++
	if !c.closed {
		c.closed = true
		close(c.wake)
	}
	return nil
}
func (c *c13PacketConn) SetDeadline(t time.Time) error      { return nil }
func (c *c13PacketConn) SetReadDeadline(t time.Time) error  { return nil }
func (c *c13PacketConn) SetWriteDeadline(t time.Time) error { return nil }

type c13Dialer struct {
	dials     int
	failFirst int
	conns     []*c13PacketConn
}

func (d *c13Dialer) DialContext(ctx context.Context, network, addr string) (netproxy.Conn, error) {
	d.dials++
	vs.Yield() // a dial takes time: other packets of the flow arrive meanwhile
	if d.dials <= d.failFirst {
		return nil, stderrors.New("dial: upstream unreachable")
	}
	c := c13NewPC()
	d.conns = append(d.conns, c)
	return c, nil
}

// Verif_C13_endpoint_pool: first packets of one client source arrive concurrently (two goroutines
// call GetOrCreate for the same key) while the dial takes time: one dial only, both get the same
// endpoint, a later packet still gets it; after a write error retires it a new one is dialled and
// the old transport has been closed exactly once; closing the pool's endpoints closes each once.
func Verif_C13_endpoint_pool() {
	vs.Schedules(0)
	vs.Assume(time.Now().After(time.Unix(1000, 0)))
	p := &UdpEndpointPool{janitorStop: make(chan struct{}), janitorDone: make(chan struct{})}
	for i := range p.shards {
		p.shards[i].pool = make(map[UdpEndpointKey]*UdpEndpoint, 4)
	}
	fd := &c13Dialer{}
	d := &dialer.Dialer{Dialer: fd}
	key := UdpEndpointKey{Src: netip.MustParseAddrPort("10.0.0.1:1000")}
	opt := func() *UdpEndpointOptions {
		return &UdpEndpointOptions{
			Handler:    func(ue *UdpEndpoint, data []byte, from netip.AddrPort) error { return nil },
			NatTimeout: 30 * time.Second,
			GetDialOption: func(ctx context.Context) (*DialOption, error) {
				return &DialOption{Target: "8.8.8.8:53", Dialer: d, Network: "udp"}, nil
			},
		}
	}
	var got [2]*UdpEndpoint
	var errs [2]error
	for i := 0; i < 2; i++ {
		i := i
		go func() { got[i], _, errs[i] = p.GetOrCreate(key, opt()) }()
	}
	vs.Join()
	vs.Assert("concurrent first packets succeed", errs[0] == nil && errs[1] == nil && got[0] != nil)
	vs.Assert("concurrent first packets cause a single dial", fd.dials == 1)
	vs.Assert("and go through the same endpoint", got[0] == got[1])
	ue3, isNew, err := p.GetOrCreate(key, opt())
	vs.Assert("a later packet of the source uses the same endpoint", err == nil && !isNew && ue3 == got[0] && fd.dials == 1)
	// a write error retires the endpoint
	fd.conns[0].closed = true
	_, werr := got[0].WriteTo([]byte{1}, "8.8.8.8:53")
	vs.Join()
	vs.Assert("the failing write is reported", werr != nil)
	vs.Assert("the retired endpoint's transport is closed exactly once", fd.conns[0].closes == 1)
	ue4, isNew4, err := p.GetOrCreate(key, opt())
	vs.Assert("a retired endpoint is never handed out again", err == nil && isNew4 && ue4 != got[0] && fd.dials == 2)
	// the replaced endpoint is retired once more, late (its read loop or a second failing write notices)
	got[0].retire()
	vs.Join()
	ue5, isNew5, err := p.GetOrCreate(key, opt())
	vs.Assert("a late retire of the replaced endpoint leaves its successor in place", err == nil && !isNew5 && ue5 == ue4 && fd.dials == 2)
	vs.Assert("and does not close the old transport again", fd.conns[0].closes == 1)
	_ = ue4.Close()
	_ = ue4.Close()
	vs.Join()
	vs.Assert("closing twice closes the transport once", fd.conns[1].closes == 1)
}

// Verif_C13_endpoint_cooldown: a dial fails; until the cool-down has passed (the clock is arbitrary)
// the same source is refused without another dial, afterwards exactly one new dial is made.
func Verif_C13_endpoint_cooldown() {
	vs.Assume(time.Now().After(time.Unix(1000, 0)))
	p := &UdpEndpointPool{janitorStop: make(chan struct{}), janitorDone: make(chan struct{})}
	for i := range p.shards {
		p.shards[i].pool = make(map[UdpEndpointKey]*UdpEndpoint, 4)
	}
	fd := &c13Dialer{failFirst: 1}
	d := &dialer.Dialer{Dialer: fd}
	key := UdpEndpointKey{Src: netip.MustParseAddrPort("10.0.0.1:1000")}
	opt := &UdpEndpointOptions{
		Handler:    func(ue *UdpEndpoint, data []byte, from netip.AddrPort) error { return nil },
		NatTimeout: 30 * time.Second,
		GetDialOption: func(ctx context.Context) (*DialOption, error) {
			return &DialOption{Target: "8.8.8.8:53", Dialer: d, Network: "udp"}, nil
		},
	}
	t0 := time.Now()
	ue1, _, err1 := p.GetOrCreate(key, opt)
	vs.Assert("a failed dial yields no endpoint", err1 != nil && ue1 == nil && fd.dials == 1)
	ue2, _, err2 := p.GetOrCreate(key, opt)
	t2 := time.Now()
	if fd.dials == 1 {
		vs.Assert("during the cool-down the source is refused without a dial", ue2 == nil && stderrors.Is(err2, ErrEndpointFailed))
	} else {
		vs.Assert("a new dial happens only after the cool-down", fd.dials == 2 && t2.Sub(t0) >= 2*time.Second)
		vs.Assert("and then succeeds with a fresh endpoint", err2 == nil && ue2 != nil && !ue2.failed.Load())
	}
}

// Verif_C13_endpoint_cooldown_concurrent: two first packets of one source arrive concurrently while
// the dial takes time, and the dial fails. Within the cool-down (the clock is arbitrary, bounded
// below 2 s for the whole run) only one dial is made whichever goroutine leads: the follower is
// refused with the cool-down error rather than dialling again.
func Verif_C13_endpoint_cooldown_concurrent() {
	vs.Schedules(0)
	vs.Assume(time.Now().After(time.Unix(1000, 0)))
	p := &UdpEndpointPool{janitorStop: make(chan struct{}), janitorDone: make(chan struct{})}
	for i := range p.shards {
		p.shards[i].pool = make(map[UdpEndpointKey]*UdpEndpoint, 4)
	}
	fd := &c13Dialer{failFirst: 2}
	d := &dialer.Dialer{Dialer: fd}
	key := UdpEndpointKey{Src: netip.MustParseAddrPort("10.0.0.1:1000")}
	opt := func() *UdpEndpointOptions {
		return &UdpEndpointOptions{
			Handler:    func(ue *UdpEndpoint, data []byte, from netip.AddrPort) error { return nil },
			NatTimeout: 30 * time.Second,
			GetDialOption: func(ctx context.Context) (*DialOption, error) {
				return &DialOption{Target: "8.8.8.8:53", Dialer: d, Network: "udp"}, nil
			},
		}
	}
	t0 := time.Now()
	var got [2]*UdpEndpoint
	var errs [2]error
	for i := 0; i < 2; i++ {
		i := i
		go func() { got[i], _, errs[i] = p.GetOrCreate(key, opt()) }()
	}
	vs.Join()
	vs.Assume(time.Now().Sub(t0) < 2*time.Second)
	vs.Assert("no endpoint is handed out for a failed dial", got[0] == nil && got[1] == nil && errs[0] != nil && errs[1] != nil)
	vs.Assert("concurrent first packets cause a single dial even when it fails", fd.dials == 1)
	vs.Assert("the follower is refused by the cool-down", stderrors.Is(errs[0], ErrEndpointFailed) || stderrors.Is(errs[1], ErrEndpointFailed))
}

// Verif_C13_endpoint_invalidation: the node behind an endpoint is reported not alive. An endpoint
// that has not carried traffic yet is retired, its transport closed once, and it is never handed
// out again (the next packet dials anew); one that has already forwarded a packet is kept. Whether
// the endpoint has sent is symbolic.
func Verif_C13_endpoint_invalidation() {
	vs.Schedules(0)
	vs.Assume(time.Now().After(time.Unix(1000, 0)))
	p := &UdpEndpointPool{janitorStop: make(chan struct{}), janitorDone: make(chan struct{})}
	for i := range p.shards {
		p.shards[i].pool = make(map[UdpEndpointKey]*UdpEndpoint, 4)
	}
	fd := &c13Dialer{}
	d := &dialer.Dialer{Dialer: fd}
	key := UdpEndpointKey{Src: netip.MustParseAddrPort("10.0.0.1:1000")}
	opt := &UdpEndpointOptions{
		Handler:    func(ue *UdpEndpoint, data []byte, from netip.AddrPort) error { return nil },
		NatTimeout: 30 * time.Second,
		GetDialOption: func(ctx context.Context) (*DialOption, error) {
			return &DialOption{Target: "8.8.8.8:53", Dialer: d, Network: "udp"}, nil
		},
	}
	ue1, _, err := p.GetOrCreate(key, opt)
	vs.Assert("endpoint created", err == nil && ue1 != nil && fd.dials == 1)
	carried := vs.Bool("carriedTraffic")
	if carried {
		_, werr := ue1.WriteTo([]byte{1}, "8.8.8.8:53")
		vs.Assert("first packet forwarded", werr == nil)
	}
	nt := ue1.endpointNetworkType
	removed := p.InvalidateDialerNetworkType(d, &nt)
	vs.Join()
	ue2, isNew, err := p.GetOrCreate(key, opt)
	vs.Assert("the source is still served", err == nil && ue2 != nil)
	if carried {
		vs.Assert("an endpoint that has carried traffic survives the health change", removed == 0 && !isNew && ue2 == ue1 && fd.dials == 1 && fd.conns[0].closes == 0)
	} else {
		vs.Assert("an endpoint invalidated before carrying traffic is never handed out again", removed == 1 && isNew && ue2 != ue1 && fd.dials == 2)
		vs.Assert("and its transport is closed exactly once", fd.conns[0].closes == 1)
	}
}

// Verif_C13_endpoint_adoption: a reload hands a live endpoint to the next generation (GetOrCreate
// with the new generation's conn-state owner), before or after the endpoint registered its first
// flow tuples (symbolic). Tuples registered after the hand-over belong to the new generation's
// tracker, tuples registered before it are moved there; the old generation holds none; closing
// the endpoint removes every kernel entry and leaves both trackers empty.
func Verif_C13_endpoint_adoption() {
	vs.Schedules(0)
	vs.Assume(time.Now().After(time.Unix(1000, 0)))
	k := &c13Kernel{present: map[bpfTuplesKey]bool{}, holders: map[bpfTuplesKey]int{}}
	c13InstallKernel(k)
	oldCore, newCore := c13Core(), c13Core()
	p := &UdpEndpointPool{janitorStop: make(chan struct{}), janitorDone: make(chan struct{})}
	for i := range p.shards {
		p.shards[i].pool = make(map[UdpEndpointKey]*UdpEndpoint, 4)
	}
	fd := &c13Dialer{}
	d := &dialer.Dialer{Dialer: fd}
	key := UdpEndpointKey{Src: netip.MustParseAddrPort("10.0.0.1:1000")}
	opt := func(owner udpConnStateOwner) *UdpEndpointOptions {
		return &UdpEndpointOptions{
			Handler:        func(ue *UdpEndpoint, data []byte, from netip.AddrPort) error { return nil },
			NatTimeout:     30 * time.Second,
			ConnStateOwner: owner,
			GetDialOption: func(ctx context.Context) (*DialOption, error) {
				return &DialOption{Target: "8.8.8.8:53", Dialer: d, Network: "udp"}, nil
			},
		}
	}
	src, dst1, dst2 := netip.MustParseAddrPort("10.0.0.1:1000"), netip.MustParseAddrPort("8.8.8.8:53"), netip.MustParseAddrPort("8.8.4.4:53")
	ue, _, err := p.GetOrCreate(key, opt(oldCore))
	vs.Assert("endpoint created", err == nil && ue != nil)
	trackedBefore := vs.Bool("flowBeforeHandover")
	if trackedBefore {
		ue.TrackUdpConnStateTuplePair(src, dst1)
	}
	ue2, isNew, err := p.GetOrCreate(key, opt(newCore)) // the next generation's first packet of this source
	vs.Assert("the live endpoint is reused across the reload", err == nil && !isNew && ue2 == ue && fd.dials == 1)
	ue.TrackUdpConnStateTuplePair(src, dst2)
	oldN, newN := len(oldCore.getUdpConnStateTracker().entries), len(newCore.getUdpConnStateTracker().entries)
	want := 2
	if trackedBefore {
		want = 4
	}
	vs.Assert("after the hand-over the old generation tracks none of the endpoint's tuples", oldN == 0)
	vs.Assert("and the new generation tracks all of them", newN == want)
	_ = ue.Close()
	vs.Join()
	vs.Assert("closing the endpoint leaves both trackers empty", len(oldCore.getUdpConnStateTracker().entries) == 0 && len(newCore.getUdpConnStateTracker().entries) == 0)
	vs.Assert("and removes its kernel flow entries", len(k.present) == 0)
}
