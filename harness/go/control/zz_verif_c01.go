//go:build verif

package control

import (
	"net/netip"
	"strconv"

	"github.com/daeuniverse/dae/common/consts"
	"github.com/daeuniverse/dae/component/routing"
	"github.com/daeuniverse/dae/component/routing/domain_matcher"
	"github.com/daeuniverse/dae/pkg/config_parser"
	"github.com/daeuniverse/dae/pkg/trie"
	"github.com/sirupsen/logrus"
	vs "github.com/daeuniverse/dae/zz_vs"
)

// ---------------------------------------------------------------------------------------
// Contracts for the two set matchers (proved in C12 / C11, used here):
//   K-LPM: a trie built from prefixes ps answers HasPrefix(bits of a/128) <=> some p in ps contains a
//   K-DOM: the domain matcher's bitmap has bit i set iff the set added under RuleIndex i matches
// ---------------------------------------------------------------------------------------

type c01World struct {
	tries   map[*trie.Trie][]netip.Prefix
	domSets []int // RuleIndex of each domain set added
}

// c01DomHit: does the domain set compiled at match-set index idx match the packet's name
func c01DomHit(idx int) bool { return vs.UFBool("domainSetMatches", uint64(idx)) }

// Under contract K-LPM the bit-string form of a prefix is opaque to the matcher: only
// "HasPrefix(Prefix2bin128(a/128)) <=> some prefix of the set contains a" matters. Both functions
// are therefore replaced together: the stand-in word carries the effective length (IPv4 counted
// on the IPv4-mapped 128-bit scale) and the 16 address bytes.
func c01Bin(p netip.Prefix) string {
	a := p.Addr().As16()
	n := p.Bits()
	if p.Addr().Is4() {
		n += 96
	}
	return string(append([]byte{byte(n)}, a[:]...))
}

func c01Covers(p netip.Prefix, word string) bool {
	pw := c01Bin(p)
	var pa, wa [16]byte
	copy(pa[:], pw[1:])
	copy(wa[:], word[1:])
	return c12Covers(pa, int(pw[0]), wa)
}

func c01Install(w *c01World) {
	vs.Replace("github.com/daeuniverse/dae/pkg/trie.Prefix2bin128", c01Bin)
	vs.Replace("github.com/daeuniverse/dae/pkg/trie.NewTrieFromPrefixes", func(cidrs []netip.Prefix) (*trie.Trie, error) {
		t := &trie.Trie{}
		w.tries[t] = cidrs
		return t, nil
	})
	vs.Replace("(*github.com/daeuniverse/dae/pkg/trie.Trie).HasPrefix", func(t *trie.Trie, word string) bool {
		hit := false
		for _, p := range w.tries[t] {
			hit = vs.IteBool(c01Covers(p, word), true, hit)
		}
		return hit
	})
	vs.Replace("github.com/daeuniverse/dae/component/routing/domain_matcher.NewAhocorasickSlimtrie",
		func(log *logrus.Logger, maxLen int) *domain_matcher.AhocorasickSlimtrie { return &domain_matcher.AhocorasickSlimtrie{} })
	vs.Replace("(*github.com/daeuniverse/dae/component/routing/domain_matcher.AhocorasickSlimtrie).AddSet",
		func(m *domain_matcher.AhocorasickSlimtrie, bitIndex int, patterns []string, typ consts.RoutingDomainKey) {
			w.domSets = append(w.domSets, bitIndex)
		})
	vs.Replace("(*github.com/daeuniverse/dae/component/routing/domain_matcher.AhocorasickSlimtrie).Build",
		func(m *domain_matcher.AhocorasickSlimtrie) error { return nil })
	vs.Replace("(*github.com/daeuniverse/dae/component/routing/domain_matcher.AhocorasickSlimtrie).MatchDomainBitmap",
		func(m *domain_matcher.AhocorasickSlimtrie, domain string) []uint32 {
			bm := make([]uint32, consts.MaxMatchSetLen/32)
			for _, idx := range w.domSets {
				if c01DomHit(idx) {
					bm[idx/32] |= 1 << (uint(idx) % 32)
				}
			}
			return bm
		})
}

// ---- symbolic typed values of one condition, remembered for the specification ----

type c01Cond struct {
	kind     int // 0 domain 1 ip 2 sip 3 port 4 sport 5 l4proto 6 ipversion 7 mac 8 pname 9 dscp
	not      bool
	prefixes []netip.Prefix
	ranges   [][2]uint16
	mask     uint8
	macs     [][6]byte
	pnames   [][16]byte
	dscps    []uint8
	firstSet int // domain: match-set index of the first key group; groups follow consecutively
	groups   int
	sameSetAs string // ip / sip: use the very prefix set of that other condition (the builder de-duplicates equal sets)
}

var c01Funcs = []string{consts.Function_Domain, consts.Function_Ip, consts.Function_SourceIp, consts.Function_Port, consts.Function_SourcePort,
	consts.Function_L4Proto, consts.Function_IpVersion, consts.Function_Mac, consts.Function_ProcessName, consts.Function_Dscp}

type c01Rule struct {
	conds    []*c01Cond
	outbound string
	mark     uint32
	must     bool
}

var c01Outbound2Id = map[string]uint8{"direct": uint8(consts.OutboundDirect), "block": uint8(consts.OutboundBlock), "g": 2, "h": 3}

func c01Prefix(tag string) netip.Prefix {
	var a [16]byte
	copy(a[:], vs.Bytes(tag+".addr", 16))
	// quick: v4 /24, v6 /64, v4 /0; thorough adds v4 /32, v6 /0, v6 /128
	forms := 3
	if vs.Thorough() {
		forms = 6
	}
	switch vs.Choice(tag+".form", forms) {
	case 0:
		return netip.PrefixFrom(netip.AddrFrom4([4]byte{a[12], a[13], a[14], a[15]}), 24)
	case 1:
		return netip.PrefixFrom(netip.AddrFrom16(a), 64)
	case 2:
		return netip.PrefixFrom(netip.AddrFrom4([4]byte{a[12], a[13], a[14], a[15]}), 0)
	case 3:
		return netip.PrefixFrom(netip.AddrFrom4([4]byte{a[12], a[13], a[14], a[15]}), 32)
	case 4:
		return netip.PrefixFrom(netip.AddrFrom16(a), 0)
	}
	return netip.PrefixFrom(netip.AddrFrom16(a), 128)
}

// c01Register installs parsers that hand symbolic typed values to the real add* methods (the
// text -> value parsers are checked separately); everything downstream is the real code.
func c01Register(b *RoutingMatcherBuilder, conds map[string]*c01Cond) func(*routing.RulesBuilder) {
	return func(rb *routing.RulesBuilder) {
		for k, name := range c01Funcs {
			kind := k
			rb.RegisterFunctionParser(name, func(log *logrus.Logger, f *config_parser.Function, key string, vals []string, ob *routing.Outbound) error {
				// the program is deep-copied before lowering: conditions are identified by the 4-letter
				// tag every value starts with
				c := conds[vals[0][:4]]
				tag := vals[0]
				n := len(vals)
				switch kind {
				case 0:
					if c.groups == 0 {
						c.firstSet = len(b.rules)
					}
					c.groups++
					return b.addDomain(f, key, vals, ob)
				case 1, 2:
					if c.sameSetAs != "" {
						c.prefixes = append([]netip.Prefix{}, conds[c.sameSetAs].prefixes...)
					} else {
						for i := 0; i < n; i++ {
							c.prefixes = append(c.prefixes, c01Prefix(tag+"#"+strconv.Itoa(i)))
						}
					}
					if kind == 1 {
						return b.addIp(f, c.prefixes, ob)
					}
					return b.addSourceIp(f, c.prefixes, ob)
				case 3, 4:
					for i := 0; i < n; i++ {
						lo, hi := vs.U16(tag+"#"+strconv.Itoa(i)+".lo"), vs.U16(tag+"#"+strconv.Itoa(i)+".hi")
						c.ranges = append(c.ranges, [2]uint16{lo, hi})
					}
					if kind == 3 {
						return b.addPort(f, c.ranges, ob)
					}
					return b.addSourcePort(f, c.ranges, ob)
				case 5:
					c.mask = 1 + uint8(vs.Choice(tag+".l4", 3))
					return b.addL4Proto(f, consts.L4ProtoType(c.mask), ob)
				case 6:
					c.mask = 1 + uint8(vs.Choice(tag+".ipv", 3))
					return b.addIpVersion(f, consts.IpVersionType(c.mask), ob)
				case 7:
					if c.sameSetAs != "" {
						c.macs = append([][6]byte{}, conds[c.sameSetAs].macs...)
						return b.addSourceMac(f, c.macs, ob)
					}
					for i := 0; i < n; i++ {
						var m [6]byte
						copy(m[:], vs.Bytes(tag+"#"+strconv.Itoa(i)+".mac", 6))
						c.macs = append(c.macs, m)
					}
					return b.addSourceMac(f, c.macs, ob)
				case 8:
					for i := 0; i < n; i++ {
						var p [16]byte
						copy(p[:], vs.Bytes(tag+"#"+strconv.Itoa(i)+".pname", 16))
						c.pnames = append(c.pnames, p)
					}
					return b.addProcessName(f, c.pnames, ob)
				case 9:
					for i := 0; i < n; i++ {
						c.dscps = append(c.dscps, vs.U8(tag+"#"+strconv.Itoa(i)+".dscp"))
					}
					return b.addDscp(f, c.dscps, ob)
				}
				return nil
			})
		}
	}
}

// ---- the packet ----

type c01Packet struct {
	src, dst     netip.AddrPort
	l4           consts.L4ProtoType
	hasDomain    bool
	pname        [16]byte
	mac          [6]byte
	dscp         uint8
	src16, dst16 [16]byte
}

func c01Addr(tag string, may4 bool) (netip.Addr, [16]byte) {
	var a [16]byte
	copy(a[:], vs.Bytes(tag, 16))
	if may4 && vs.Choice(tag+".is4", 2) == 1 {
		ad := netip.AddrFrom4([4]byte{a[12], a[13], a[14], a[15]})
		return ad, ad.As16()
	}
	return netip.AddrFrom16(a), a
}

func c01MakePacket() *c01Packet {
	p := &c01Packet{}
	var s, d netip.Addr
	// the source only enters through its 16-byte form (IPv4 = IPv4-mapped bytes); the destination
	// also decides the IP version, so both representations are tried
	s, p.src16 = c01Addr("pkt.src", false)
	d, p.dst16 = c01Addr("pkt.dst", true)
	p.src = netip.AddrPortFrom(s, vs.U16("pkt.sport"))
	p.dst = netip.AddrPortFrom(d, vs.U16("pkt.dport"))
	p.l4 = consts.L4ProtoType(vs.IntRange("pkt.l4", 1, 2))
	p.hasDomain = true
	if !twoRules || vs.Thorough() {
		p.hasDomain = vs.Choice("pkt.hasDomain", 2) == 1
	}
	copy(p.pname[:], vs.Bytes("pkt.pname", 16))
	copy(p.mac[:], vs.Bytes("pkt.mac", 6))
	p.dscp = vs.U8("pkt.dscp")
	return p
}

// ---- specification: the documented meaning of each condition kind ----

func c01Word(a [16]byte) string {
	return c01Bin(netip.PrefixFrom(netip.AddrFrom16(a), 128))
}

func c01CondHolds(c *c01Cond, p *c01Packet) bool {
	any := false
	switch c.kind {
	case 0:
		for g := 0; g < c.groups; g++ {
			any = vs.IteBool(p.hasDomain && c01DomHit(c.firstSet+g), true, any)
		}
	case 1, 2:
		a := p.dst16
		if c.kind == 2 {
			a = p.src16
		}
		w := c01Word(a)
		for _, pf := range c.prefixes {
			any = vs.IteBool(c01Covers(pf, w), true, any)
		}
	case 3, 4:
		port := p.dst.Port()
		if c.kind == 4 {
			port = p.src.Port()
		}
		for _, r := range c.ranges {
			any = vs.IteBool(r[0] <= port && port <= r[1], true, any)
		}
	case 5:
		any = uint8(p.l4)&c.mask != 0
	case 6:
		v := uint8(consts.IpVersion_6)
		if p.dst.Addr().Is4() || p.dst.Addr().Is4In6() {
			v = uint8(consts.IpVersion_4)
		}
		any = v&c.mask != 0
	case 7:
		macs := c.macs
		if c.not {
			macs = append(append([][6]byte{}, macs...), [6]byte{}) // a negated MAC rule never matches a frame without a MAC
		}
		for _, m := range macs {
			any = vs.IteBool(m == p.mac, true, any)
		}
	case 8:
		for _, n := range c.pnames {
			any = vs.IteBool(p.pname[0] != 0 && n == p.pname, true, any)
		}
	case 9:
		for _, d := range c.dscps {
			any = vs.IteBool(d == p.dscp, true, any)
		}
	}
	return any != c.not
}

// c01Spec: first rule, top to bottom, all of whose conditions hold; must_rules sets must and continues.
func c01Spec(rules []*c01Rule, fb *c01Rule, p *c01Packet) (outbound uint64, mark uint64, must bool) {
	decided, sticky := false, false
	outbound = uint64(c01Outbound2Id[fb.outbound])
	mark = uint64(fb.mark)
	must = fb.must
	for _, r := range rules {
		all := true
		for _, c := range r.conds {
			all = vs.IteBool(c01CondHolds(c, p), all, false)
		}
		take := vs.IteBool(decided, false, all)
		if r.outbound == "must_rules" {
			sticky = vs.IteBool(take, true, sticky)
			continue
		}
		outbound = vs.IteU64(take, uint64(c01Outbound2Id[r.outbound]), outbound)
		mark = vs.IteU64(take, uint64(r.mark), mark)
		must = vs.IteBool(take, vs.IteBool(r.must, true, sticky), must)
		decided = vs.IteBool(take, true, decided)
	}
	must = vs.IteBool(decided, must, vs.IteBool(fb.must, true, sticky))
	return
}

// ---- program construction ----

var twoRules bool

func c01Outbound(tag string, allowMustRules bool) (f config_parser.Function, r *c01Rule) {
	// (name, params) combinations; quick tier uses the first few of each list
	type ob struct {
		name string
		kind int // 0 no params, 1 mark, 2 must + mark
	}
	combos := []ob{{"direct", 0}, {"g", 1}, {"block", 2}, {"g", 0}, {"direct", 2}, {"block", 1}, {"h", 2}}
	n := 3
	if vs.Thorough() {
		n = len(combos)
	}
	if tag == "fallback" && !vs.Thorough() {
		n = 2
		if twoRules {
			n = 1
		}
	}
	if tag == "r1" && !vs.Thorough() {
		n = 2
	}
	k := vs.Choice(tag+".outbound", n+map[bool]int{true: 1, false: 0}[allowMustRules])
	if k == n {
		return config_parser.Function{Name: "must_rules"}, &c01Rule{outbound: "must_rules"}
	}
	r = &c01Rule{outbound: combos[k].name}
	f.Name = r.outbound
	switch combos[k].kind {
	case 1:
		r.mark = 0x10
		f.Params = append(f.Params, &config_parser.Param{Key: consts.OutboundParam_Mark, Val: "0x10"})
	case 2:
		r.mark, r.must = 0xffffffff, true
		f.Params = append(f.Params, &config_parser.Param{Val: "must"}, &config_parser.Param{Key: consts.OutboundParam_Mark, Val: "4294967295"})
	}
	return
}

func c01BuildCond(tag string, kinds []int, maxVals int, conds map[string]*c01Cond) (*config_parser.Function, *c01Cond) {
	c := &c01Cond{kind: kinds[vs.Choice(tag+".kind", len(kinds))], not: vs.Bool(tag + ".not")}
	f := &config_parser.Function{Name: c01Funcs[c.kind], Not: c.not}
	n := 1 + vs.Choice(tag+".values", maxVals)
	for i := 0; i < n; i++ {
		p := &config_parser.Param{Val: tag + "v" + strconv.Itoa(i)}
		if c.kind == 0 {
			// domain: each value in its own key group (full, suffix) so that several match-sets are emitted
			p.Key = []string{"full", "suffix"}[i%2]
			p.Val = tag + "-" + strconv.Itoa(i) + ".example.com"
		} else if i > 0 {
			p.Val = tag + "v0" // one key group, several values
		}
		f.Params = append(f.Params, p)
	}
	conds[tag] = c
	return f, c
}

func c01Run(shape func(conds map[string]*c01Cond) ([]*config_parser.RoutingRule, []*c01Rule)) {
	w := &c01World{tries: map[*trie.Trie][]netip.Prefix{}}
	c01Install(w)
	conds := map[string]*c01Cond{}
	astRules, specRules := shape(conds)
	fbFunc, fb := c01Outbound("fallback", false)
	program, err := routing.NewNormalizedProgram(astRules, &fbFunc)
	vs.Assert("program accepted", err == nil)
	b := &RoutingMatcherBuilder{outboundName2Id: c01Outbound2Id, lpmDedup: map[uint64]lpmDedupEntry{}, referencedOutbounds: map[string]struct{}{}}
	err = program.Lower(nil, c01Register(b, conds), b.addFallback)
	vs.Assert("rules compile", err == nil)
	m, err := b.BuildUserspace()
	vs.Assert("matcher builds", err == nil)
	cp := &ControlPlane{}
	cp.routingMatcher = m
	pkt := c01MakePacket()
	domain := ""
	if pkt.hasDomain {
		domain = "example.com"
	}
	rr := &bpfRoutingResult{Mac: pkt.mac, Pname: pkt.pname, Dscp: pkt.dscp}
	ob, mark, must, err := cp.Route(pkt.src, pkt.dst, domain, pkt.l4, rr)
	vs.Assert("routing succeeds", err == nil)
	wantOb, wantMark, wantMust := c01Spec(specRules, fb, pkt)
	vs.Trace("got.outbound", uint64(ob))
	vs.Trace("want.outbound", wantOb)
	for ri, r := range specRules {
		for ci, c := range r.conds {
			vs.TraceBool("spec.r"+strconv.Itoa(ri)+"c"+strconv.Itoa(ci), c01CondHolds(c, pkt))
		}
	}
	vs.Assert("outbound of the first matching rule", uint64(ob) == wantOb)
	vs.Assert("mark of the first matching rule", uint64(mark) == wantMark)
	vs.Assert("must flag: rule's own or set by must_rules", must == wantMust)
}

// Verif_C01_one_rule: one rule with one condition of every kind, one or two values, any negation,
// any outbound with its parameters, then the fallback.
func Verif_C01_one_rule() {
	c01Run(func(conds map[string]*c01Cond) ([]*config_parser.RoutingRule, []*c01Rule) {
		of, r := c01Outbound("r0", true)
		f, c := c01BuildCond("r0c0", []int{0, 1, 2, 3, 4, 5, 6, 7, 8, 9}, 2, conds)
		r.conds = []*c01Cond{c}
		return []*config_parser.RoutingRule{{AndFunctions: []*config_parser.Function{f}, Outbound: of}}, []*c01Rule{r}
	})
}

// Verif_C01_two_rules: a two-condition rule ('&&') followed by a one-condition rule; the first may
// be must_rules.
func Verif_C01_two_rules() {
	twoRules = true
	c01Run(func(conds map[string]*c01Cond) ([]*config_parser.RoutingRule, []*c01Rule) {
		kindsA, kindsB, kindsC := []int{3}, []int{1, 0, 7}, []int{4}
		if vs.Thorough() {
			kindsA = []int{0, 1, 2, 3, 4, 5, 6, 7, 8, 9}
			kindsB = kindsA
			kindsC = []int{4, 2, 9}
		}
		of0, r0 := c01Outbound("r0", true)
		if !vs.Thorough() {
			// quick: the first rule is must_rules or a group with a mark
			vs.Assume(r0.outbound == "must_rules" || r0.outbound == "g")
		}
		f00, c00 := c01BuildCond("r0c0", kindsA, 1, conds)
		f01, c01 := c01BuildCond("r0c1", kindsB, 2, conds)
		r0.conds = []*c01Cond{c00, c01}
		of1, r1 := c01Outbound("r1", false)
		f10, c10 := c01BuildCond("r1c0", kindsC, 1, conds)
		r1.conds = []*c01Cond{c10}
		return []*config_parser.RoutingRule{
			{AndFunctions: []*config_parser.Function{f00, f01}, Outbound: of0},
			{AndFunctions: []*config_parser.Function{f10}, Outbound: of1},
		}, []*c01Rule{r0, r1}
	})
}

// Verif_C01_shared_set: a source-address condition and a destination-address condition over the
// very same prefix set (the builder stores equal sets once and both conditions refer to the one
// stored set), in two rules, either possibly negated: each condition is still judged on its own
// address - the first rule on the packet's source, the second on its destination.
func Verif_C01_shared_set() {
	c01Run(func(conds map[string]*c01Cond) ([]*config_parser.RoutingRule, []*c01Rule) {
		of0, r0 := c01Outbound("r0", false)
		f00, c00 := c01BuildCond("r0c0", []int{2}, 1, conds)
		r0.conds = []*c01Cond{c00}
		of1, r1 := c01Outbound("r1", false)
		f10, c10 := c01BuildCond("r1c0", []int{1}, 1, conds)
		c10.sameSetAs = "r0c0"
		r1.conds = []*c01Cond{c10}
		return []*config_parser.RoutingRule{
			{AndFunctions: []*config_parser.Function{f00}, Outbound: of0},
			{AndFunctions: []*config_parser.Function{f10}, Outbound: of1},
		}, []*c01Rule{r0, r1}
	})
}

// Verif_C01_shared_mac: two rules whose mac() conditions list the very same addresses, each
// possibly negated (so also mac(M) next to !mac(M)): each rule is judged as written - in particular
// a negated MAC rule never matches a frame without a MAC and a positive one never does because of
// its negated neighbour.
func Verif_C01_shared_mac() {
	c01Run(func(conds map[string]*c01Cond) ([]*config_parser.RoutingRule, []*c01Rule) {
		of0, r0 := c01Outbound("r0", false)
		f00, c00 := c01BuildCond("r0c0", []int{7}, 1, conds)
		f01, c01 := c01BuildCond("r0c1", []int{3}, 1, conds)
		r0.conds = []*c01Cond{c00, c01}
		of1, r1 := c01Outbound("r1", false)
		f10, c10 := c01BuildCond("r1c0", []int{7}, 1, conds)
		c10.sameSetAs = "r0c0"
		r1.conds = []*c01Cond{c10}
		return []*config_parser.RoutingRule{
			{AndFunctions: []*config_parser.Function{f00, f01}, Outbound: of0},
			{AndFunctions: []*config_parser.Function{f10}, Outbound: of1},
		}, []*c01Rule{r0, r1}
	})
}

// Verif_C01_key_groups: a condition with values in two key groups (domain(full: .., suffix: ..))
// written before another condition of the same rule: the groups of one condition are alternatives
// (OR) wherever the condition stands in the rule; only conditions are conjoined.
func Verif_C01_key_groups() {
	c01Run(func(conds map[string]*c01Cond) ([]*config_parser.RoutingRule, []*c01Rule) {
		of0, r0 := c01Outbound("r0", false)
		f00, c00 := c01BuildCond("r0c0", []int{0}, 2, conds)
		f01, c01 := c01BuildCond("r0c1", []int{3, 5}, 1, conds)
		r0.conds = []*c01Cond{c00, c01}
		first, second := f00, f01
		if vs.Choice("r0.order", 2) == 1 {
			first, second = f01, f00
		}
		return []*config_parser.RoutingRule{{AndFunctions: []*config_parser.Function{first, second}, Outbound: of0}}, []*c01Rule{r0}
	})
}
