//go:build verif

package control

import (
	"context"
	"net"
	"net/netip"
	"strconv"
	"time"

	"github.com/daeuniverse/dae/common/consts"
	ob "github.com/daeuniverse/dae/component/outbound"
	"github.com/daeuniverse/dae/component/outbound/dialer"
	"github.com/bits-and-blooms/bloom/v3"
	"github.com/daeuniverse/dae/common/netutils"
	"github.com/daeuniverse/outbound/netproxy"
	"github.com/sirupsen/logrus"
	vs "github.com/daeuniverse/dae/zz_vs"
)

var c18Modes = []consts.DialMode{consts.DialMode_Ip, consts.DialMode_Domain, consts.DialMode_DomainPlus, consts.DialMode_DomainCao}

// c18Env installs the environment of ChooseDialTarget: what the DNS controller and the
// real-domain cache know about the sniffed name is arbitrary (symbolic).
type c18Env struct {
	hasKnowledge, known, real bool
	probes                    int
}

func c18Install(e *c18Env) {
	vs.Replace("(*github.com/daeuniverse/dae/control.DnsController).HasDnsKnowledge",
		func(d *DnsController, key string) bool { return e.hasKnowledge })
	vs.Replace("(*github.com/daeuniverse/dae/control.DnsController).cacheKey",
		func(d *DnsController, qname string, qtype uint16) string { return "k" })
	vs.Replace("(*github.com/daeuniverse/dae/control.ControlPlane).lookupRealDomainCache",
		func(c *ControlPlane, domain string) (bool, bool) { return e.known, e.real })
	vs.Replace("(*github.com/daeuniverse/dae/control.ControlPlane).triggerRealDomainProbe",
		func(c *ControlPlane, domain string) { e.probes++ })
}

func c18Dst() netip.AddrPort {
	port := vs.U16("dst.port")
	if vs.Bool("dst.is6") {
		var a [16]byte
		copy(a[:], vs.Bytes("dst.addr6", 16))
		return netip.AddrPortFrom(netip.AddrFrom16(a), port)
	}
	var a [4]byte
	copy(a[:], vs.Bytes("dst.addr4", 4))
	return netip.AddrPortFrom(netip.AddrFrom4(a), port)
}

var c18Ports = []uint16{1, 443, 65535}

var c18Outbounds = []consts.OutboundIndex{consts.OutboundDirect, consts.OutboundBlock, consts.OutboundControlPlaneRouting,
	consts.OutboundMustRules, consts.OutboundUserDefinedMin, consts.OutboundUserDefinedMin + 7, consts.OutboundIndex(consts.OutboundUserDefinedMax)}

// Verif_C18_table: the full decision table of ChooseDialTarget for a genuine host name.
func Verif_C18_table() {
	e := &c18Env{hasKnowledge: vs.Bool("hasDnsKnowledge"), known: vs.Bool("realCache.known"), real: vs.Bool("realCache.real")}
	c18Install(e)
	mode := c18Modes[vs.Choice("mode", 4)]
	outbound := c18Outbounds[vs.Choice("outbound", len(c18Outbounds))]
	dst := netip.AddrPortFrom(netip.AddrFrom4([4]byte{10, 1, 2, 3}), c18Ports[vs.Choice("dst.port", len(c18Ports))])
	domains := []string{"", "example.com", "Example.COM.", "a"}
	domain := domains[vs.Choice("domain", len(domains))]
	cp := &ControlPlane{}
	cp.dialMode = mode
	cp.dnsController = &DnsController{}

	target, reroute, dialIp := cp.ChooseDialTarget(outbound, dst, domain)

	reserved := outbound == consts.OutboundDirect || outbound == consts.OutboundBlock || outbound == consts.OutboundControlPlaneRouting ||
		outbound == consts.OutboundMustRules
	genuine := e.hasKnowledge || (e.known && e.real)
	useName := !reserved && domain != "" &&
		(mode == consts.DialMode_DomainPlus || mode == consts.DialMode_DomainCao || (mode == consts.DialMode_Domain && genuine))
	ipTarget := "10.1.2.3:" + strconv.Itoa(int(dst.Port()))
	if useName {
		vs.Assert("name target", target == net.JoinHostPort(domain, strconv.Itoa(int(dst.Port()))) && !dialIp)
	} else {
		vs.Assert("ip target", target == ipTarget && dialIp)
	}
	if mode == consts.DialMode_Ip || domain == "" || reserved {
		vs.Assert("no reroute without a usable name", !reroute)
	}
	if !reserved && domain != "" && mode == consts.DialMode_DomainCao {
		vs.Assert("domain++ reroutes", reroute)
	}
	if !reserved && domain != "" && mode == consts.DialMode_DomainPlus {
		vs.Assert("domain+ does not reroute", !reroute)
	}
	if !useName {
		vs.Assert("reroute only with the name in use", !reroute)
	}
	// the warm-up probe is only ever started in domain mode for a name of unknown status
	if e.probes > 0 {
		vs.Assert("probe only for unknown names in domain mode", mode == consts.DialMode_Domain && !reserved && domain != "" && !e.hasKnowledge && !e.known)
	}
	vs.Assert("at most one probe", e.probes <= 1)
}

var c18Alphabet = []byte{'1', '.', ':', '[', ']', 'a'}

func c18SymDomain(maxLen int) string {
	n := vs.Choice("dom.len", maxLen+1)
	b := make([]byte, n)
	for i := 0; i < n; i++ {
		// a symbolic byte restricted to the alphabet; the parsers' own comparisons split the cases
		c := vs.U8("dom[" + strconv.Itoa(i) + "]")
		ok := false
		for _, a := range c18Alphabet {
			ok = ok || c == a
		}
		vs.Assume(ok)
		b[i] = c
	}
	return string(b)
}

func c18Strip(s string) string {
	if len(s) >= 2 && s[0] == '[' && s[len(s)-1] == ']' {
		return s[1 : len(s)-1]
	}
	return s
}

// Verif_C18_strings: every sniffed string up to the bound over the alphabet {1 . : [ ] a}
// (IPv4/IPv6 literals, bracketed literals, host:port, garbage) through the real parsers.
func Verif_C18_strings() {
	maxLen := 4
	if vs.Thorough() {
		maxLen = 6
	}
	e := &c18Env{hasKnowledge: vs.Bool("hasDnsKnowledge"), known: vs.Bool("realCache.known"), real: vs.Bool("realCache.real")}
	c18Install(e)
	mode := c18Modes[1+vs.Choice("mode", 3)]
	dst := netip.AddrPortFrom(netip.AddrFrom4([4]byte{10, 1, 2, 3}), 443)
	domain := c18SymDomain(maxLen)
	vs.Assume(domain != "")
	cp := &ControlPlane{}
	cp.dialMode = mode
	cp.dnsController = &DnsController{}

	target, _, dialIp := cp.ChooseDialTarget(consts.OutboundUserDefinedMin, dst, domain)

	vs.Assert("target never empty", target != "")
	stripped := c18Strip(domain)
	_, litErr := netip.ParseAddr(stripped)
	isLiteral := litErr == nil
	genuine := e.hasKnowledge || (e.known && e.real)
	nameUsed := mode != consts.DialMode_Domain || genuine
	if isLiteral {
		// an IP literal, bracketed or not: dialled as an IP, brackets normalised, original port
		vs.Assert("literal => dialIp", dialIp)
		th, tp, terr := net.SplitHostPort(target)
		vs.Assert("literal => well-formed target", terr == nil && tp == "443")
		if mode == consts.DialMode_Domain {
			vs.Assert("literal in domain mode => original destination", target == "10.1.2.3:443")
		} else {
			vs.Assert("literal => host is the literal without brackets", th == stripped)
		}
		vs.Assert("literal => no probe", e.probes == 0)
		return
	}
	h, p, splitErr := net.SplitHostPort(domain)
	if splitErr == nil && h != "" {
		// the sniffed value already carries a port
		_, e2 := netip.ParseAddr(c18Strip(h))
		hostIsLiteral := e2 == nil
		if hostIsLiteral {
			vs.Assert("T:literal:port => no probe", e.probes == 0)
		}
		if nameUsed && !(mode == consts.DialMode_Domain && hostIsLiteral) {
			th, tp, terr := net.SplitHostPort(target)
			vs.Assert("host:port => well-formed, port kept", terr == nil && tp == p && th == h && !dialIp)
		} else {
			vs.Assert("host:port not used => original destination", target == "10.1.2.3:443" && dialIp)
		}
		return
	}
	plain := true
	for i := 0; i < len(domain); i++ {
		if domain[i] == ':' || domain[i] == '[' || domain[i] == ']' {
			plain = false
		}
	}
	if plain {
		if nameUsed {
			vs.Assert("plain name joined with the destination port", target == domain+":443" && !dialIp)
		} else {
			vs.Assert("unverified name => original destination", target == "10.1.2.3:443" && dialIp)
		}
	}
}

// Verif_C18_rerouted: the dial target of a flow that is routed again in userspace (domain++ with a
// sniffed name, or a flow the kernel handed over as <control plane routing>): whatever outbound the
// flow came with and whatever outbound the second routing picks, the target that is dialled is the
// one ChooseDialTarget prescribes for the outbound the flow finally uses - by name only for a
// user-defined group, by address for direct.
func Verif_C18_rerouted() {
	e := &c18Env{hasKnowledge: vs.Bool("hasDnsKnowledge"), known: vs.Bool("realCache.known"), real: vs.Bool("realCache.real")}
	c18Install(e)
	first := []consts.OutboundIndex{consts.OutboundDirect, consts.OutboundControlPlaneRouting, consts.OutboundUserDefinedMin}[vs.Choice("kernelOutbound", 3)]
	second := []consts.OutboundIndex{consts.OutboundDirect, consts.OutboundUserDefinedMin}[vs.Choice("reroutedTo", 2)]
	routed := 0
	vs.Replace("(*github.com/daeuniverse/dae/control.ControlPlane).Route",
		func(c *ControlPlane, src, dst netip.AddrPort, domain string, l4proto consts.L4ProtoType, rr *bpfRoutingResult) (consts.OutboundIndex, uint32, bool, error) {
			routed++
			return second, 0, false, nil
		})
	someDialer := &dialer.Dialer{}
	vs.Replace("(*github.com/daeuniverse/dae/component/outbound.DialerGroup).SelectWithExclusionResult",
		func(g *ob.DialerGroup, nt *dialer.NetworkType, strict bool, excluded *dialer.Dialer) (*dialer.Dialer, time.Duration, *dialer.NetworkType, error) {
			return someDialer, 0, nt, nil
		})
	cp := &ControlPlane{}
	cp.log = logrus.New()
	cp.dialMode = c18Modes[vs.Choice("mode", 4)]
	cp.dnsController = &DnsController{}
	cp.outbounds = []*ob.DialerGroup{{Name: "direct"}, {Name: "block"}, {Name: "g"}}
	domain := []string{"", "www.example.com"}[vs.Choice("domain", 2)]
	dst := netip.AddrPortFrom(netip.AddrFrom4([4]byte{10, 1, 2, 3}), 443)
	p := &proxyDialParam{Outbound: first, Domain: domain, Src: netip.MustParseAddrPort("192.168.1.2:5555"), Dest: dst, Network: "tcp"}
	res, err := cp.chooseProxyDialer(context.Background(), p)
	vs.Assert("a dialer is chosen", err == nil && res != nil && res.Dialer == someDialer)
	final := first
	if routed > 0 {
		final = second
	}
	vs.Assert("the group used is the one the flow is finally routed to", res.Outbound == cp.outbounds[final])
	wantTarget, _, wantIp := cp.ChooseDialTarget(final, dst, domain)
	vs.Assert("the dial target is the one prescribed for the final outbound", res.DialTarget == wantTarget && res.IsDialIp == wantIp)
	if final == consts.OutboundDirect {
		vs.Assert("direct traffic is dialled by its original address", res.DialTarget == "10.1.2.3:443" && res.IsDialIp)
	}
}

// Verif_C18_probe: the verification probe that decides whether a sniffed name may be dialled by name
// in domain mode. The two address-family lookups end independently - with an address, with "no such
// record", or with an error (all combinations symbolic): the name counts as genuine only if some
// lookup produced an address; a probe that produced none never verifies the name, whatever mix of
// errors and empty answers it saw.
func Verif_C18_probe() {
	has4, has6 := vs.Bool("a.found"), vs.Bool("aaaa.found")
	err4, err6 := vs.Bool("a.error"), vs.Bool("aaaa.error")
	vs.Assume(!(has4 && err4) && !(has6 && err6)) // a lookup does not both fail and return an address
	added := 0
	vs.Replace("(*github.com/daeuniverse/dae/control.ControlPlane).lookupRealDomainCache",
		func(c *ControlPlane, domain string) (bool, bool) { return false, false })
	vs.Replace("(*github.com/daeuniverse/dae/control.ControlPlane).resolveIp46WithBootstrapResolvers",
		func(c *ControlPlane, ctx context.Context, host string, network string, race bool,
			resolve func(context.Context, netproxy.Dialer, netip.AddrPort, string, string, bool) (*netutils.Ip46, error, error)) (*netutils.Ip46, error, error) {
			r := &netutils.Ip46{}
			if has4 {
				r.Ip4 = netip.AddrFrom4([4]byte{203, 0, 113, 7})
			}
			if has6 {
				r.Ip6 = netip.MustParseAddr("2001:db8::7")
			}
			var e4, e6 error
			if err4 {
				e4 = context.DeadlineExceeded
			}
			if err6 {
				e6 = context.DeadlineExceeded
			}
			return r, e4, e6
		})
	vs.Replace("(*github.com/bits-and-blooms/bloom/v3.BloomFilter).AddString",
		func(f *bloom.BloomFilter, s string) *bloom.BloomFilter { added++; return f })
	cp := &ControlPlane{}
	cp.ctx = context.Background()
	cp.bootstrapResolvers = []netip.AddrPort{netip.MustParseAddrPort("9.9.9.9:53")}
	cp.realDomainSet = &bloom.BloomFilter{}
	verified := cp.probeAndUpdateRealDomain("spoofed-sni.example")
	vs.Assert("a name is verified exactly when the probe found an address for it", verified == (has4 || has6))
	vs.Assert("and only a verified name enters the set of genuine names", (added > 0) == verified)
}
