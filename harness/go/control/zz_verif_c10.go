//go:build verif

package control

import (
	"net"
	"strconv"

	"github.com/cilium/ebpf"
	"github.com/daeuniverse/dae/common"
	"github.com/daeuniverse/dae/common/consts"
	dnsmessage "github.com/miekg/dns"
	vs "github.com/daeuniverse/dae/zz_vs"
)

// The kernel's domain_routing_map is a shadow map fed by the batches the tracker emits.
type c10Kernel struct {
	m map[[4]uint32]bpfDomainRouting
}

func c10Install(k *c10Kernel) {
	vs.Replace("github.com/daeuniverse/dae/control.BpfMapBatchUpdate",
		func(m *ebpf.Map, keys interface{}, values interface{}, opts *ebpf.BatchOptions) (int, error) {
			ks := keys.([][4]uint32)
			vals := values.([]bpfDomainRouting)
			for i := range ks {
				k.m[ks[i]] = vals[i]
			}
			return len(ks), nil
		})
	vs.Replace("github.com/daeuniverse/dae/control.BpfMapBatchDelete",
		func(m *ebpf.Map, keys interface{}) (int, error) {
			ks := keys.([][4]uint32)
			for i := range ks {
				delete(k.m, ks[i])
			}
			return len(ks), nil
		})
}

var c10Addrs = []net.IP{net.IPv4(1, 1, 1, 1).To4(), net.ParseIP("2001:db8::2"), net.IPv4(0, 0, 0, 0).To4(), net.ParseIP("::")}

func c10Key(ip net.IP) [4]uint32 {
	var a [16]byte
	copy(a[:], ip.To16())
	return common.Ipv6ByteSliceToUint32Array(a[:])
}

type c10Owner struct {
	live   bool
	has    [2]bool // lists address 0 / 1
	w0, w1 uint32  // bitmap words 0 and 31
}

// c10Entry builds a cache entry for an owner with an arbitrary subset of the addresses (including
// unspecified ones, which never count) and an arbitrary bitmap (words 0 and 31 symbolic).
func c10Entry(tag string, owner string, simple bool) (*DnsCache, *c10Owner) {
	o := &c10Owner{live: true, w0: vs.U32(tag + ".bitmap0")}
	if vs.Thorough() {
		o.w1 = vs.U32(tag + ".bitmap31")
	}
	c := &DnsCache{RouteOwnerKey: owner, DomainBitmap: make([]uint32, 32)}
	c.DomainBitmap[0], c.DomainBitmap[31] = o.w0, o.w1
	unspec := false
	if !simple {
		unspec = vs.Choice(tag+".listsUnspecified", 2) == 1
	}
	for i, ip := range c10Addrs {
		listed := unspec
		if i < 2 {
			listed = i == 0
			if !simple {
				listed = vs.Choice(tag+".lists"+strconv.Itoa(i), 2) == 1
			}
		}
		if listed {
			if len(ip) == 4 {
				c.Answer = append(c.Answer, &dnsmessage.A{Hdr: dnsmessage.RR_Header{Rrtype: dnsmessage.TypeA}, A: ip})
			} else {
				c.Answer = append(c.Answer, &dnsmessage.AAAA{Hdr: dnsmessage.RR_Header{Rrtype: dnsmessage.TypeAAAA}, AAAA: ip})
			}
			if i < 2 {
				o.has[i] = true
			}
		}
	}
	return c, o
}

// Verif_C10_mirror: histories of cache insertions / replacements / removals over two owners with
// overlapping address sets: after every step the kernel table holds, per address, exactly the
// union of the bitmaps of the live entries listing it, and nothing else.
func Verif_C10_mirror() {
	k := &c10Kernel{m: map[[4]uint32]bpfDomainRouting{}}
	c10Install(k)
	core := &controlPlaneCore{}
	core.bpf.Store(&bpfObjects{})
	core.bpf.Load().DomainRoutingMap = &ebpf.Map{}
	// quick: two arbitrary steps, then a removal or a simple update; thorough: three arbitrary steps, then the same
	steps := 3
	if vs.Thorough() {
		steps = 4
	}
	owners := []string{"a.example.1", "b.example.28|upstream@x"}
	ghost := [2]*c10Owner{{}, {}}
	for s := 0; s < steps; s++ {
		tag := "step" + strconv.Itoa(s)
		oi := vs.Choice(tag+".owner", 2)
		if vs.Choice(tag+".remove", 2) == 1 {
			err := core.BatchRemoveDomainRouting(&DnsCache{RouteOwnerKey: owners[oi]})
			vs.Assert("removal succeeds", err == nil)
			ghost[oi] = &c10Owner{}
		} else {
			entry, o := c10Entry(tag, owners[oi], s == steps-1)
			err := core.BatchUpdateDomainRouting(entry)
			vs.Assert("update succeeds", err == nil)
			ghost[oi] = o
		}
		// what the table must hold now
		for ai := 0; ai < 2; ai++ {
			var w0, w1 uint32
			present := false
			for _, o := range ghost {
				if o.live && o.has[ai] && (o.w0 != 0 || o.w1 != 0) {
					present = true
					w0 |= o.w0
					w1 |= o.w1
				}
			}
			v, ok := k.m[c10Key(c10Addrs[ai])]
			vs.Assert("address present in the kernel table iff a live entry with domain rules lists it", ok == present)
			if present {
				rest := uint32(0)
				for i := 1; i < 31; i++ {
					rest |= v.Bitmap[i]
				}
				vs.Assert("kernel bitmap is the union of the owners' bitmaps", v.Bitmap[0] == w0 && v.Bitmap[31] == w1 && rest == 0)
			}
		}
		_, z4 := k.m[c10Key(c10Addrs[2])]
		_, z6 := k.m[c10Key(c10Addrs[3])]
		vs.Assert("unspecified addresses never enter the table", !z4 && !z6)
		vs.Assert("no other keys", len(k.m) <= 2)
	}
}

// Verif_C10_mirror_long: longer histories over two owners with a smaller step alphabet (remove;
// list address 0; list address 1 - bitmaps arbitrary): a co-owner leaving and coming back, an owner
// moving between addresses while the other stays, etc. Same mirror obligation after every step.
func Verif_C10_mirror_long() {
	k := &c10Kernel{m: map[[4]uint32]bpfDomainRouting{}}
	c10Install(k)
	core := &controlPlaneCore{}
	core.bpf.Store(&bpfObjects{})
	core.bpf.Load().DomainRoutingMap = &ebpf.Map{}
	steps := 4
	if vs.Thorough() {
		steps = 5
	}
	owners := []string{"a.example.1", "b.example.28|upstream@x"}
	ghost := [2]*c10Owner{{}, {}}
	for s := 0; s < steps; s++ {
		tag := "step" + strconv.Itoa(s)
		oi := vs.Choice(tag+".owner", 2)
		op := vs.Choice(tag+".op", 3)
		if s == 0 && !vs.Thorough() {
			vs.Assume(oi == 0 && op != 0) // quick: by symmetry the first step is owner 0 caching an answer
		}
		if op == 0 {
			err := core.BatchRemoveDomainRouting(&DnsCache{RouteOwnerKey: owners[oi]})
			vs.Assert("removal succeeds", err == nil)
			ghost[oi] = &c10Owner{}
		} else {
			o := &c10Owner{live: true, w0: vs.U32(tag + ".bitmap0")}
			o.has[op-1] = true
			c := &DnsCache{RouteOwnerKey: owners[oi], DomainBitmap: make([]uint32, 32)}
			c.DomainBitmap[0] = o.w0
			if op == 1 {
				c.Answer = append(c.Answer, &dnsmessage.A{Hdr: dnsmessage.RR_Header{Rrtype: dnsmessage.TypeA}, A: c10Addrs[0]})
			} else {
				c.Answer = append(c.Answer, &dnsmessage.AAAA{Hdr: dnsmessage.RR_Header{Rrtype: dnsmessage.TypeAAAA}, AAAA: c10Addrs[1]})
			}
			err := core.BatchUpdateDomainRouting(c)
			vs.Assert("update succeeds", err == nil)
			ghost[oi] = o
		}
		for ai := 0; ai < 2; ai++ {
			var w0 uint32
			present := false
			for _, o := range ghost {
				if o.live && o.has[ai] && o.w0 != 0 {
					present = true
					w0 |= o.w0
				}
			}
			v, ok := k.m[c10Key(c10Addrs[ai])]
			vs.Assert("address present in the kernel table iff a live entry with domain rules lists it", ok == present)
			if present {
				vs.Assert("kernel bitmap is the union of the owners' bitmaps", v.Bitmap[0] == w0)
			}
		}
		vs.Assert("no other keys", len(k.m) <= 2)
	}
}

type c10Bitmaps struct{ w0 map[string]uint32 }

func (b *c10Bitmaps) MatchDomainBitmap(domain string) []uint32 {
	bm := make([]uint32, 32)
	bm[0] = b.w0[domain]
	return bm
}
func (b *c10Bitmaps) AddSet(bitIndex int, patterns []string, typ consts.RoutingDomainKey) {}
func (b *c10Bitmaps) Build() error                                                       { return nil }

// Verif_C10_cache_history: the same mirror property driven through the DNS cache itself: answers
// are cached under two upstream scopes of one name and under another name (production insert path
// with the control plane's callbacks), replaced, removed exactly, or removed as a family (reject);
// after each step the kernel table equals the union over the live cache entries.
func Verif_C10_cache_history() {
	c08Install()
	k := &c10Kernel{m: map[[4]uint32]bpfDomainRouting{}}
	c10Install(k)
	cp := &ControlPlane{}
	cp.core = &controlPlaneCore{}
	cp.core.bpf.Store(&bpfObjects{})
	cp.core.bpf.Load().DomainRoutingMap = &ebpf.Map{}
	bms := &c10Bitmaps{w0: map[string]uint32{"a.example.": vs.U32("bitmap.a"), "b.example.": vs.U32("bitmap.b")}}
	cp.routingMatcher = &RoutingMatcher{domainMatcher: bms}
	opt := cp.dnsControllerOption()
	opt.OptimisticCache = false
	opt.MaxCacheSize = 100
	c := &DnsController{dnsControllerStore: newDnsControllerStore()}
	if err := c.updateRuntime(opt, nil); err != nil {
		vs.Fail("controller setup")
	}
	names := []string{"a.example.", "a.example.", "b.example."}
	keys := []string{c.cacheKey("a.example.", dnsmessage.TypeA), c.cacheKey("a.example.", dnsmessage.TypeA) + "|upstream@x", c.cacheKey("b.example.", dnsmessage.TypeA)}
	steps := 3
	for s := 0; s < steps; s++ {
		tag := "step" + strconv.Itoa(s)
		ki := vs.Choice(tag+".key", 3)
		op := vs.Choice(tag+".op", 3)
		if s == steps-1 && !vs.Thorough() {
			vs.Assume(op != 0) // quick: the last step is a removal
		}
		switch op {
		case 0: // (re)cache an answer
			var ans []dnsmessage.RR
			for i := 0; i < 2; i++ {
				if vs.Choice(tag+".lists"+strconv.Itoa(i), 2) == 1 {
					if i == 0 {
						ans = append(ans, &dnsmessage.A{Hdr: dnsmessage.RR_Header{Name: names[ki], Rrtype: dnsmessage.TypeA, Ttl: 60}, A: c10Addrs[0]})
					} else {
						ans = append(ans, &dnsmessage.AAAA{Hdr: dnsmessage.RR_Header{Name: names[ki], Rrtype: dnsmessage.TypeAAAA, Ttl: 60}, AAAA: c10Addrs[1]})
					}
				}
			}
			err := c.UpdateDnsCacheTtlWithKey(keys[ki], names[ki], dnsmessage.TypeA, ans, nil, nil, 60)
			vs.Assert("insert succeeds", err == nil)
		case 1: // exact removal
			c.RemoveDnsRespCache(keys[ki])
		case 2: // family removal (question routed to reject)
			c.RemoveDnsRespCacheFamily(dnsCacheBaseKey(keys[ki]))
		}
		// expected table: union over the live cache entries
		for ai := 0; ai < 2; ai++ {
			var w0 uint32
			present := false
			for j := range keys {
				v, ok := c.dnsCache.Load(keys[j])
				if !ok {
					continue
				}
				e := v.(*DnsCache)
				lists := false
				for _, rr := range e.Answer {
					if a, ok := rr.(*dnsmessage.A); ok && ai == 0 && a.A.Equal(c10Addrs[0]) {
						lists = true
					}
					if a, ok := rr.(*dnsmessage.AAAA); ok && ai == 1 && a.AAAA.Equal(c10Addrs[1]) {
						lists = true
					}
				}
				bw := bms.w0[names[j]]
				if lists && bw != 0 {
					present = true
					w0 |= bw
				}
			}
			kv, ok := k.m[c10Key(c10Addrs[ai])]
			vs.Assert("kernel table lists the address iff a live cache entry with domain rules does", ok == present)
			if present {
				vs.Assert("kernel bitmap is the union over the live cache entries", kv.Bitmap[0] == w0)
			}
		}
	}
}
