//go:build verif

package control

import (
	"net"
	"time"

	"github.com/daeuniverse/dae/common/consts"
	dnsmessage "github.com/miekg/dns"
	vs "github.com/daeuniverse/dae/zz_vs"
)

// ---- environment ----

type c08NoDomains struct{}

func (c08NoDomains) MatchDomainBitmap(domain string) []uint32 { return nil }
func (c08NoDomains) AddSet(bitIndex int, patterns []string, typ consts.RoutingDomainKey) {}
func (c08NoDomains) Build() error                                                       { return nil }

// c08Pack stands in for miekg/dns wire packing: an opaque blob that remembers the TTL of the
// first answer it was packed with (bytes 2..5) and leaves bytes 0..1 for the transaction id.
func c08Pack(m *dnsmessage.Msg) ([]byte, error) {
	var ttl uint32 = 0xffffffff
	if len(m.Answer) > 0 {
		ttl = m.Answer[0].Header().Ttl
	}
	return []byte{0, 0, byte(ttl >> 24), byte(ttl >> 16), byte(ttl >> 8), byte(ttl), byte(len(m.Answer))}, nil
}

func c08BlobTTL(b []byte) uint32 {
	return uint32(b[2])<<24 | uint32(b[3])<<16 | uint32(b[4])<<8 | uint32(b[5])
}

func c08Install() {
	vs.Replace("(*github.com/miekg/dns.Msg).Pack", c08Pack)
	vs.Replace("github.com/miekg/dns.Copy", func(rr dnsmessage.RR) dnsmessage.RR {
		if a, ok := rr.(*dnsmessage.A); ok {
			cp := *a
			return &cp
		}
		return rr
	})
	// the kernel-table side effects of inserts and evictions are property C10's subject
	vs.Replace("(*github.com/daeuniverse/dae/control.DnsController).triggerBpfUpdateIfNeeded", func(c *DnsController, cache *DnsCache, now any) {})
}

// c08Controller builds a controller around the production NewCache closure
// (ControlPlane.dnsControllerOption) without starting the janitor goroutines.
func c08Controller(optimistic bool, staleTtl, maxSize int, fixed map[string]int) *DnsController {
	cp := &ControlPlane{}
	cp.routingMatcher = &RoutingMatcher{domainMatcher: c08NoDomains{}}
	opt := cp.dnsControllerOption()
	opt.CacheAccessCallback = nil
	opt.CacheDeleteCallback = nil
	opt.CacheRemoveCallback = nil
	opt.OptimisticCache = optimistic
	opt.OptimisticCacheTtl = staleTtl
	opt.MaxCacheSize = maxSize
	opt.FixedDomainTtl = fixed
	c := &DnsController{dnsControllerStore: newDnsControllerStore()}
	if err := c.updateRuntime(opt, nil); err != nil {
		vs.Fail("controller setup")
	}
	return c
}

func c08Answer(name string, ttl uint32) []dnsmessage.RR {
	return []dnsmessage.RR{&dnsmessage.A{
		Hdr: dnsmessage.RR_Header{Name: name, Rrtype: dnsmessage.TypeA, Class: dnsmessage.ClassINET, Ttl: ttl},
		A:   net.IP{1, 2, 3, 4},
	}}
}

func c08Query(name string) *dnsmessage.Msg {
	return &dnsmessage.Msg{Question: []dnsmessage.Question{{Name: name, Qtype: dnsmessage.TypeA, Qclass: dnsmessage.ClassINET}}}
}

const c08Sec = int64(1_000_000_000)

// Verif_C08_lookup: one insert through the production path at instant t0 with TTL ttl, one
// lookup at any later instant t1, for every optimistic/stale/fixed-TTL configuration.
func Verif_C08_lookup() {
	c08Install()
	optimistic := vs.Bool("optimistic_cache")
	staleTtl := vs.IntRange("optimistic_cache_ttl", 0, 3600)
	hasFixed := vs.Bool("fixed_domain_ttl.set")
	fixedTtl := vs.IntRange("fixed_domain_ttl", 0, 86400)
	ttl := vs.IntRange("ttl", 0, 31536000)
	var fixed map[string]int
	if hasFixed {
		fixed = map[string]int{"example.com": fixedTtl}
	}
	// max_cache_size is given so that optimistic_cache_ttl 0 keeps its documented meaning "never expire"
	c := c08Controller(optimistic, staleTtl, 100, fixed)
	key := c.cacheKey("Example.COM", dnsmessage.TypeA)
	vs.Assert("cache key is case-insensitive and fully qualified", key == c.cacheKey("example.com.", dnsmessage.TypeA))

	err := c.UpdateDnsCacheTtlWithKey(key, "example.com.", dnsmessage.TypeA, c08Answer("example.com.", uint32(ttl)), nil, nil, ttl)
	vs.Assert("insert succeeds", err == nil)
	v, ok := c.dnsCache.Load(key)
	vs.Assert("entry stored under its key", ok)
	entry := v.(*DnsCache)
	t0 := entry.OriginalDeadline.UnixNano() - int64(ttl)*c08Sec
	life := int64(ttl)
	if hasFixed {
		life = int64(fixedTtl)
	}
	deadline := t0 + life*c08Sec
	vs.Assert("deadline = insert time + (fixed ttl or record ttl)", entry.Deadline.UnixNano() == deadline)

	// a different type, or another upstream scope of the same name, misses
	other, _ := c.LookupDnsRespCache_(c08Query("example.com."), c.cacheKey("example.com.", dnsmessage.TypeAAAA), false)
	vs.Assert("other record type misses", other == nil)
	scoped, _ := c.LookupDnsRespCache_(c08Query("example.com."), key+"|upstream@x", false)
	vs.Assert("other upstream scope misses", scoped == nil)

	// a background refresh of this entry may be in flight (started by an earlier stale hit and still
	// waiting for a slow upstream)
	refreshInFlight := vs.Bool("refreshInFlight")
	entry.refreshing.Store(refreshInFlight)
	resp, needRefresh := c.LookupDnsRespCache_(c08Query("example.com."), key, false)
	t1 := entry.lastAccessNano.Load() // the instant the lookup observed
	vs.Assume(t1 >= t0)
	vs.Trace("t0", uint64(t0))
	vs.Trace("t1", uint64(t1))
	vs.Trace("deadline", uint64(deadline))
	vs.TraceBool("resp!=nil", resp != nil)
	vs.TraceBool("needRefresh", needRefresh)
	vs.Trace("deadlineNano", uint64(entry.deadlineNano.Load()))
	fresh := t1 < deadline
	inStale := optimistic && !fresh && (staleTtl == 0 || t1 <= deadline+int64(staleTtl)*c08Sec)
	if fresh {
		vs.Assert("fresh entry is served", resp != nil && !needRefresh)
		shown := int64(c08BlobTTL(resp))
		remaining := (deadline - t1) / c08Sec // whole seconds left, rounded down
		vs.Assert("shown ttl >= 1 while fresh", shown >= 1)
		vs.Assert("shown ttl within the approximation slack", shown <= remaining+1+ttlRefreshThresholdSeconds)
	} else if inStale {
		vs.Assert("expired entry inside the stale window is served", resp != nil)
		vs.Assert("a stale lookup asks for a refresh unless one is already in flight", needRefresh == !refreshInFlight)
		resp2, again := c.LookupDnsRespCache_(c08Query("example.com."), key, false)
		t2 := entry.lastAccessNano.Load()
		if optimistic && (staleTtl == 0 || t2 <= deadline+int64(staleTtl)*c08Sec) {
			vs.Assert("at most one refresh in flight", resp2 != nil && !again)
		}
	} else {
		vs.Assert("expired entry outside the stale window is not served", resp == nil && !needRefresh)
		_, still := c.dnsCache.Load(key)
		vs.Assert("and is evicted", !still)
	}
}

// Verif_C08_janitor: two entries with arbitrary TTLs, one janitor pass at an arbitrary later
// instant: exactly the entries whose lifetime (plus the stale window when optimistic caching is
// on) has run out are removed.
func Verif_C08_janitor() {
	c08Install()
	optimistic := vs.Bool("optimistic_cache")
	staleTtl := vs.IntRange("optimistic_cache_ttl", 0, 3600)
	maxSize := []int{0, 100}[vs.Choice("max_cache_size", 2)]
	c := c08Controller(optimistic, staleTtl, maxSize, nil)
	names := []string{"a.example.", "b.example."}
	var keys [2]string
	var deadlines [2]int64
	for i, n := range names {
		ttl := vs.IntRange("ttl"+string(rune('0'+i)), 0, 31536000)
		keys[i] = c.cacheKey(n, dnsmessage.TypeA)
		err := c.UpdateDnsCacheTtlWithKey(keys[i], n, dnsmessage.TypeA, c08Answer(n, uint32(ttl)), nil, nil, ttl)
		vs.Assert("insert succeeds", err == nil)
		v, _ := c.dnsCache.Load(keys[i])
		deadlines[i] = v.(*DnsCache).Deadline.UnixNano()
	}
	nowNano := vs.I64("janitor.now")
	vs.Assume(nowNano >= deadlines[1]-31536000*c08Sec && nowNano < 1<<61)
	c.evictExpiredDnsCache(time.Unix(0, nowNano))

	// documented configuration semantics
	effStale := staleTtl
	if staleTtl == 0 && maxSize == 0 {
		effStale = 60 // default stale window when neither knob is set
	}
	timeBased := effStale > 0
	for i := range keys {
		_, present := c.dnsCache.Load(keys[i])
		limit := deadlines[i]
		if optimistic && effStale > 0 {
			limit += int64(effStale) * c08Sec
		}
		if timeBased {
			vs.Assert("entry kept iff its (stale-extended) lifetime has not run out", present == (limit > nowNano))
		} else {
			vs.Assert("never-expire configuration keeps entries for the LRU", present)
		}
	}
}

// Verif_C08_lru: with a size limit, the least recently used entries are the ones evicted.
func Verif_C08_lru() {
	c08Install()
	n := 4
	if vs.Thorough() {
		n = 6
	}
	max := 1 + vs.Choice("max_cache_size", n-1)
	c := c08Controller(true, 0, max, nil)
	keys := make([]string, n)
	access := make([]int64, n)
	for i := 0; i < n; i++ {
		name := string(rune('a'+i)) + ".example."
		keys[i] = c.cacheKey(name, dnsmessage.TypeA)
		err := c.UpdateDnsCacheTtlWithKey(keys[i], name, dnsmessage.TypeA, c08Answer(name, 60), nil, nil, 60)
		vs.Assert("insert succeeds", err == nil)
		v, _ := c.dnsCache.Load(keys[i])
		access[i] = vs.I64("access" + string(rune('0'+i)))
		vs.Assume(access[i] > 0)
		for j := 0; j < i; j++ {
			vs.Assume(access[i] != access[j])
		}
		v.(*DnsCache).lastAccessNano.Store(access[i])
	}
	c.evictLRUIfFull()
	kept := 0
	present := make([]bool, n)
	for i := range keys {
		_, present[i] = c.dnsCache.Load(keys[i])
		if present[i] {
			kept++
		}
	}
	vs.Assert("cache shrinks exactly to the limit", kept == max)
	ok := true
	for i := 0; i < n; i++ {
		for j := 0; j < n; j++ {
			if !present[i] && present[j] && access[i] > access[j] {
				ok = false
			}
		}
	}
	vs.Assert("every evicted entry was used less recently than every kept one", ok)
}

// Verif_C08_reload: the reload clone keeps deadline, fast-path deadline and packed TTL.
func Verif_C08_reload() {
	c08Install()
	ttl := vs.IntRange("ttl", 0, 31536000)
	c := c08Controller(true, 60, 100, nil)
	key := c.cacheKey("example.com.", dnsmessage.TypeA)
	err := c.UpdateDnsCacheTtlWithKey(key, "example.com.", dnsmessage.TypeA, c08Answer("example.com.", uint32(ttl)), nil, nil, ttl)
	vs.Assert("insert succeeds", err == nil)
	v, _ := c.dnsCache.Load(key)
	orig := v.(*DnsCache)
	orig.refreshing.Store(vs.Bool("refreshing"))
	cl := orig.CloneForReload()
	vs.Assert("clone keeps the deadlines", cl.Deadline.UnixNano() == orig.Deadline.UnixNano() && cl.OriginalDeadline.UnixNano() == orig.OriginalDeadline.UnixNano())
	vs.Assert("clone's fast-path deadline is the deadline", cl.deadlineNano.Load() == cl.Deadline.UnixNano())
	vs.Assert("clone keeps the packed answer and its ttl", cl.packedResponseTTL.Load() == orig.packedResponseTTL.Load() &&
		cl.packedResponseCreatedAt.Load() == orig.packedResponseCreatedAt.Load() && cl.GetPackedResponse() != nil)
	vs.Assert("clone starts with no refresh in flight", !cl.refreshing.Load())
}

// Verif_C08_fixed_ttl_case: the answer to a question asked in another letter case, with or without
// the final dot, is stored through the production path: it lives for the fixed TTL configured for
// the name (names compare case-insensitively) and is found under the one case-insensitive key.
func Verif_C08_fixed_ttl_case() {
	c08Install()
	fixedTtl := vs.IntRange("fixed_domain_ttl", 0, 86400)
	ttl := vs.IntRange("ttl", 0, 31536000)
	c := c08Controller(false, 0, 100, map[string]int{"example.com": fixedTtl})
	asked := []string{"example.com.", "Example.COM.", "eXAMPLE.com", "example.com"}[vs.Choice("asked.spelling", 4)]
	key := c.cacheKey(asked, dnsmessage.TypeA)
	vs.Assert("cache key is case-insensitive and fully qualified", key == c.cacheKey("example.com.", dnsmessage.TypeA))
	err := c.UpdateDnsCacheTtlWithKey(key, asked, dnsmessage.TypeA, c08Answer(asked, uint32(ttl)), nil, nil, ttl)
	vs.Assert("insert succeeds", err == nil)
	v, ok := c.dnsCache.Load(key)
	vs.Assert("entry stored under its key", ok)
	entry := v.(*DnsCache)
	t0 := entry.OriginalDeadline.UnixNano() - int64(ttl)*c08Sec
	vs.Assert("the entry lives for the fixed ttl of its name, however the question was spelled", entry.Deadline.UnixNano() == t0+int64(fixedTtl)*c08Sec)
}

// Verif_C08_concurrent_lookups: two lookups of one fresh entry race (every interleaving with one
// preemption at an atomic operation, arbitrary instants): whichever reply each of them is handed,
// the TTL it shows does not exceed the entry's remaining lifetime by more than the slack.
func Verif_C08_concurrent_lookups() {
	c08Install()
	vs.Schedules(1)
	c := c08Controller(false, 0, 100, nil)
	key := c.cacheKey("example.com.", dnsmessage.TypeA)
	const ttl = 300
	err := c.UpdateDnsCacheTtlWithKey(key, "example.com.", dnsmessage.TypeA, c08Answer("example.com.", ttl), nil, nil, ttl)
	vs.Assert("insert succeeds", err == nil)
	v, _ := c.dnsCache.Load(key)
	entry := v.(*DnsCache)
	deadline := entry.Deadline.UnixNano()
	var before, shown [2]int64
	var served [2]bool
	for i := 0; i < 2; i++ {
		i := i
		go func() {
			before[i] = time.Now().UnixNano()
			if r, _ := c.LookupDnsRespCache_(c08Query("example.com."), key, false); r != nil {
				served[i], shown[i] = true, int64(c08BlobTTL(r))
			}
		}()
	}
	vs.Join()
	for i := range served {
		if served[i] {
			remaining := (deadline - before[i]) / c08Sec // an upper bound: the lookup read the clock after before[i]
			vs.Assert("shown ttl within the approximation slack, also when lookups race", shown[i] <= remaining+1+ttlRefreshThresholdSeconds)
		}
	}
}
