//go:build verif

// Package zz_vs is the harness support API. Under the symbolic executor every
// function here is intercepted; compiled natively they read a replay file
// (VERIF_REPLAY) so the very same harness is the concrete replay test.
package zz_vs

import (
	"encoding/json"
	"fmt"
	"os"
	"runtime"
	"testing"
	"time"
)

type replayFile struct {
	Harness string            `json:"harness"`
	Inputs  map[string]uint64 `json:"inputs"`
}

type AssumeFailed struct{ What string }
type AssertFailed struct{ Name string }
type Unavailable struct{ Why string }

var cur replayFile

func in(name string) uint64 { return cur.Inputs[name] }

func Symbolic() bool         { return false }
func Bool(name string) bool  { return in(name) != 0 }
func U8(name string) uint8   { return uint8(in(name)) }
func U16(name string) uint16 { return uint16(in(name)) }
func U32(name string) uint32 { return uint32(in(name)) }
func U64(name string) uint64 { return in(name) }
func I8(name string) int8    { return int8(in(name)) }
func I16(name string) int16  { return int16(in(name)) }
func I32(name string) int32  { return int32(in(name)) }
func I64(name string) int64  { return int64(in(name)) }
func Int(name string) int    { return int(in(name)) }

func IntRange(name string, lo, hi int) int {
	v := int(in(name))
	if v < lo || v > hi {
		panic(AssumeFailed{name})
	}
	return v
}

func Choice(name string, n int) int {
	v := int(in(name))
	if v < 0 || v >= n {
		panic(AssumeFailed{name})
	}
	return v
}

func Bytes(name string, n int) []byte {
	b := make([]byte, n)
	for i := range b {
		b[i] = byte(in(fmt.Sprintf("%s[%d]", name, i)))
	}
	return b
}

func String(name string, n int) string { return string(Bytes(name, n)) }

func Assume(b bool) {
	if !b {
		panic(AssumeFailed{"assume"})
	}
}

func Assert(name string, b bool) {
	if !b {
		panic(AssertFailed{name})
	}
}

func Fail(name string)              { panic(AssertFailed{name}) }
func Reach(name string)             {}
func Note(s string)                 {}
func Stop()                         { panic(AssumeFailed{"stop"}) }
func Concrete(x int) int            { return x }
func ConcreteU64(x uint64) uint64   { return x }
func ConcreteByte(x byte) byte      { return x }
func Replace(target string, fn any) { panic(Unavailable{"vs.Replace(" + target + ") has no native form"}) }
func Unreplace(target string)       {}
func UFBool(name string, args ...uint64) bool {
	panic(Unavailable{"uninterpreted function " + name})
}
func UFU64(name string, args ...uint64) uint64 {
	panic(Unavailable{"uninterpreted function " + name})
}
func IteU64(c bool, a, b uint64) uint64 {
	if c {
		return a
	}
	return b
}
func IteBool(c bool, a, b bool) bool {
	if c {
		return a
	}
	return b
}

// ReplayMain runs the harness named in the replay file and reports the outcome on stdout:
//   VS-REPLAY violated <assert>   the assertion failed natively (the violation reproduces)
//   VS-REPLAY panic <msg>         the harness panicked natively
//   VS-REPLAY passed              the run completed without a failing assertion
//   VS-REPLAY assume-failed / unavailable <why>
func ReplayMain(t *testing.T, table map[string]func()) {
	path := os.Getenv("VERIF_REPLAY")
	if path == "" {
		t.Skip("VERIF_REPLAY not set")
	}
	b, err := os.ReadFile(path)
	if err != nil {
		t.Fatal(err)
	}
	if err := json.Unmarshal(b, &cur); err != nil {
		t.Fatal(err)
	}
	fn, ok := table[cur.Harness]
	if !ok {
		fmt.Printf("VS-REPLAY unavailable harness %s not in this package\n", cur.Harness)
		return
	}
	defer func() {
		r := recover()
		switch e := r.(type) {
		case nil:
			fmt.Println("VS-REPLAY passed")
		case AssertFailed:
			fmt.Printf("VS-REPLAY violated %s\n", e.Name)
		case AssumeFailed:
			fmt.Printf("VS-REPLAY assume-failed %s\n", e.What)
		case Unavailable:
			fmt.Printf("VS-REPLAY unavailable %s\n", e.Why)
		default:
			fmt.Printf("VS-REPLAY panic %v\n", r)
		}
	}()
	fn()
}

func Thorough() bool { return os.Getenv("VERIF_TIER") == "thorough" }

// Emit prints a named value (selftest corpus).
func Emit(name string, v uint64) { fmt.Printf("VS-EMIT %s=%d\n", name, v) }

// Schedules switches the engine to schedule exploration: goroutines become threads whose
// interleaving at blocking operations and - up to the given number of preemptions - at
// synchronisation operations (sync/atomic, sync.Map, mutex, channel) is enumerated.
func Schedules(preemptions int) {
	panic(Unavailable{"schedule exploration has no native form"})
}

// Join runs every goroutine until it has finished or is blocked for good.
func Join() { time.Sleep(20 * time.Millisecond) }

// Yield lets other goroutines run.
func Yield() { runtime.Gosched() }

// Parked reports how many goroutines are still alive (blocked) in the engine; natively unknown (0).
func Parked() int { return 0 }

// Trace records a named intermediate value (debugging aid; shown with counterexamples).
func Trace(name string, v uint64)   { fmt.Printf("VS-TRACE %s=%d\n", name, v) }
func TraceBool(name string, v bool) { fmt.Printf("VS-TRACE %s=%v\n", name, v) }
