#!/bin/bash
# seedtest.sh <ID> <seed-name> : apply /verif/seeded/<seed-name>/patch.diff to /repo, run the check, undo.
id=$1; name=$2; tier=${3:-quick}
cd /verif
git -C /repo apply --check /verif/seeded/$name/patch.diff || { echo "patch does not apply"; exit 2; }
git -C /repo apply /verif/seeded/$name/patch.diff
./check $id $tier > /tmp/seed_$name.out 2>&1; rc=$?
git -C /repo checkout -- .
echo "seed=$name check=$id tier=$tier exit=$rc"
grep -E "^VIOLATION|^INCONCLUSIVE|^KNOWN|^property=" /tmp/seed_$name.out | head -8
