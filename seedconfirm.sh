#!/bin/bash
# seedconfirm.sh <worktree> : confirm a seeded change: builds, baseline tests pass, demo fails with / passes without.
wt=$1
cd $wt || exit 2
demo=$(python3 -c "import json;print(json.load(open('_seed/meta.json'))['demo_cmd'])")
demo=${demo#cd $wt && }
echo "demo_cmd: $demo"
go build -tags dae_stub_ebpf ./... && echo "BUILD ok" || echo "BUILD FAILED"
go test -vet=off -count=1 -skip 'SeedDemo|Seed' ./common/... ./component/... ./config/... ./pkg/... > /tmp/seedbase.out 2>&1 && echo "BASELINE ok" || { echo "BASELINE FAILED"; grep -v "^ok\|no test files" /tmp/seedbase.out | head; }
bash -c "$demo" > /tmp/seeddemo1.out 2>&1 && echo "DEMO with change: PASS (unexpected)" || echo "DEMO with change: FAIL (expected)"
git diff > /tmp/seedconfirm_$$.patch; git apply -R /tmp/seedconfirm_$$.patch
bash -c "$demo" > /tmp/seeddemo2.out 2>&1 && echo "DEMO without change: PASS (expected)" || { echo "DEMO without change: FAIL (unexpected)"; tail -5 /tmp/seeddemo2.out; }
git apply /tmp/seedconfirm_$$.patch; rm -f /tmp/seedconfirm_$$.patch
