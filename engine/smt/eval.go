package smt

// Evaluator computes concrete values of terms under an assignment of the variables.
// Unassigned variables default to zero. Terms containing uninterpreted functions or
// bit-vectors wider than 64 bits are not evaluable (ok=false).
type Evaluator struct {
	Model map[*Term]uint64
	memo  map[*Term]evalRes
}

type evalRes struct {
	v  uint64
	ok bool
}

func NewEvaluator(model map[*Term]uint64) *Evaluator {
	return &Evaluator{Model: model, memo: map[*Term]evalRes{}}
}

func (e *Evaluator) Eval(t *Term) (uint64, bool) {
	if t.IsConst() {
		return t.Val, true
	}
	if r, ok := e.memo[t]; ok {
		return r.v, r.ok
	}
	v, ok := e.eval(t)
	e.memo[t] = evalRes{v, ok}
	return v, ok
}

func b2u(b bool) uint64 {
	if b {
		return 1
	}
	return 0
}

func (e *Evaluator) eval(t *Term) (uint64, bool) {
	if t.W > 64 {
		return 0, false
	}
	switch t.Op {
	case OpVar:
		return e.Model[t] & maskOrBool(t.W), true
	case OpUF:
		return 0, false
	case OpIte:
		c, ok := e.Eval(t.Args[0])
		if !ok {
			return 0, false
		}
		if c == 1 {
			return e.Eval(t.Args[1])
		}
		return e.Eval(t.Args[2])
	case OpAnd:
		for _, a := range t.Args {
			v, ok := e.Eval(a)
			if !ok {
				return 0, false
			}
			if v == 0 {
				return 0, true
			}
		}
		return 1, true
	case OpOr:
		for _, a := range t.Args {
			v, ok := e.Eval(a)
			if !ok {
				return 0, false
			}
			if v == 1 {
				return 1, true
			}
		}
		return 0, true
	}
	var av [2]uint64
	for i, a := range t.Args {
		if a.W > 64 {
			return 0, false
		}
		v, ok := e.Eval(a)
		if !ok {
			return 0, false
		}
		if i < 2 {
			av[i] = v
		}
	}
	x, y := av[0], av[1]
	w := t.W
	switch t.Op {
	case OpNot:
		return 1 - x, true
	case OpEq:
		return b2u(x == y), true
	case OpBVAdd:
		return (x + y) & mask(w), true
	case OpBVSub:
		return (x - y) & mask(w), true
	case OpBVMul:
		return (x * y) & mask(w), true
	case OpBVUDiv:
		if y == 0 {
			return mask(w), true
		}
		return x / y, true
	case OpBVURem:
		if y == 0 {
			return x, true
		}
		return x % y, true
	case OpBVSDiv:
		sa, sb := sx(x, w), sx(y, w)
		if sb == 0 {
			if sa >= 0 {
				return mask(w), true
			}
			return 1, true
		}
		if sb == -1 {
			return uint64(-sa) & mask(w), true
		}
		return uint64(sa/sb) & mask(w), true
	case OpBVSRem:
		sa, sb := sx(x, w), sx(y, w)
		if sb == 0 {
			return x, true
		}
		if sb == -1 {
			return 0, true
		}
		return uint64(sa%sb) & mask(w), true
	case OpBVAnd:
		return x & y, true
	case OpBVOr:
		return x | y, true
	case OpBVXor:
		return x ^ y, true
	case OpBVNot:
		return ^x & mask(w), true
	case OpBVNeg:
		return (-x) & mask(w), true
	case OpBVShl:
		if y >= uint64(w) {
			return 0, true
		}
		return (x << y) & mask(w), true
	case OpBVLShr:
		if y >= uint64(w) {
			return 0, true
		}
		return x >> y, true
	case OpBVAShr:
		s := sx(x, w)
		if y >= uint64(w) {
			if s < 0 {
				return mask(w), true
			}
			return 0, true
		}
		return uint64(s>>y) & mask(w), true
	case OpBVULT:
		return b2u(x < y), true
	case OpBVULE:
		return b2u(x <= y), true
	case OpBVSLT:
		aw := t.Args[0].W
		return b2u(sx(x, aw) < sx(y, aw)), true
	case OpBVSLE:
		aw := t.Args[0].W
		return b2u(sx(x, aw) <= sx(y, aw)), true
	case OpConcat:
		return (x<<uint(t.Args[1].W) | y) & mask(w), true
	case OpExtract:
		return (x >> uint(t.P2)) & mask(w), true
	case OpZExt:
		return x, true
	case OpSExt:
		return uint64(sx(x, t.Args[0].W)) & mask(w), true
	}
	return 0, false
}

func maskOrBool(w int) uint64 {
	if w == 0 {
		return 1
	}
	return mask(w)
}
