// Package smt: hash-consed bit-vector / bool term DAG with constant folding,
// an SMT-LIB2 printer and long-lived solver processes.
package smt

import (
	"fmt"
	"math/bits"
	"strconv"
	"strings"
	"sync/atomic"
)

type Op uint8

const (
	OpBoolConst Op = iota
	OpBVConst
	OpVar
	OpNot
	OpAnd
	OpOr
	OpIte
	OpEq
	OpBVAdd
	OpBVSub
	OpBVMul
	OpBVUDiv
	OpBVURem
	OpBVSDiv
	OpBVSRem
	OpBVAnd
	OpBVOr
	OpBVXor
	OpBVNot
	OpBVNeg
	OpBVShl
	OpBVLShr
	OpBVAShr
	OpBVULT
	OpBVULE
	OpBVSLT
	OpBVSLE
	OpConcat
	OpExtract
	OpZExt
	OpSExt
	OpUF
)

var opNames = map[Op]string{
	OpNot: "not", OpAnd: "and", OpOr: "or", OpIte: "ite", OpEq: "=",
	OpBVAdd: "bvadd", OpBVSub: "bvsub", OpBVMul: "bvmul", OpBVUDiv: "bvudiv", OpBVURem: "bvurem",
	OpBVSDiv: "bvsdiv", OpBVSRem: "bvsrem", OpBVAnd: "bvand", OpBVOr: "bvor", OpBVXor: "bvxor",
	OpBVNot: "bvnot", OpBVNeg: "bvneg", OpBVShl: "bvshl", OpBVLShr: "bvlshr", OpBVAShr: "bvashr",
	OpBVULT: "bvult", OpBVULE: "bvule", OpBVSLT: "bvslt", OpBVSLE: "bvsle", OpConcat: "concat",
}

// Term is an immutable node. W==0 means Bool, otherwise bit-vector of width W.
type Term struct {
	ID   int
	Op   Op
	W    int
	Args []*Term
	Val  uint64 // const value (W<=64), bool: 0/1
	Name string // var / UF name
	P1   int    // extract hi / ext amount
	P2   int    // extract lo
	ep   uint32 // context epoch the term belongs to
}

func (t *Term) IsConst() bool { return t.Op == OpBoolConst || t.Op == OpBVConst }
func (t *Term) IsBool() bool  { return t.W == 0 }
func (t *Term) IsTrue() bool  { return t.Op == OpBoolConst && t.Val == 1 }
func (t *Term) IsFalse() bool { return t.Op == OpBoolConst && t.Val == 0 }

// SVal returns the constant sign-extended to int64.
func (t *Term) SVal() int64 {
	if t.W >= 64 || t.W == 0 {
		return int64(t.Val)
	}
	sh := uint(64 - t.W)
	return int64(t.Val<<sh) >> sh
}

type UFDecl struct {
	Name string
	Args []int // widths (0=bool)
	Ret  int
}

type Ctx struct {
	tab   map[string]*Term
	terms []*Term
	Vars  []*Term
	UFs   map[string]*UFDecl
	UFOrd []*UFDecl
	True  *Term
	False *Term
	fresh int
	epoch uint32
	small [65][]*Term // cache of small constants per width
}

var epochCounter uint32

func NewCtx() *Ctx {
	c := &Ctx{tab: map[string]*Term{}, UFs: map[string]*UFDecl{}}
	c.epoch = atomic.AddUint32(&epochCounter, 1)
	c.False = c.mk(&Term{Op: OpBoolConst, Val: 0})
	c.True = c.mk(&Term{Op: OpBoolConst, Val: 1})
	return c
}

func (c *Ctx) NumTerms() int { return len(c.terms) }

func (c *Ctx) key(t *Term) string {
	var sb strings.Builder
	sb.WriteByte(byte(t.Op) + 'A')
	sb.WriteString(strconv.Itoa(t.W))
	switch t.Op {
	case OpBoolConst, OpBVConst:
		sb.WriteByte(':')
		sb.WriteString(strconv.FormatUint(t.Val, 16))
	case OpVar, OpUF:
		sb.WriteByte(':')
		sb.WriteString(t.Name)
	case OpExtract, OpZExt, OpSExt:
		sb.WriteByte(':')
		sb.WriteString(strconv.Itoa(t.P1))
		sb.WriteByte(',')
		sb.WriteString(strconv.Itoa(t.P2))
	}
	for _, a := range t.Args {
		sb.WriteByte(' ')
		sb.WriteString(strconv.Itoa(a.ID))
	}
	return sb.String()
}

func (c *Ctx) mk(t *Term) *Term {
	for i, a := range t.Args {
		if a.ep != c.epoch {
			// a constant that outlived a context reset (package-level state): re-intern it
			if !a.IsConst() {
				panic("smt: non-constant term from another context")
			}
			na := make([]*Term, len(t.Args))
			copy(na, t.Args)
			for j := i; j < len(na); j++ {
				if na[j].ep != c.epoch {
					if !na[j].IsConst() {
						panic("smt: non-constant term from another context")
					}
					if na[j].W == 0 {
						na[j] = c.Bool(na[j].Val == 1)
					} else {
						na[j] = c.BV(na[j].W, na[j].Val)
					}
				}
			}
			t.Args = na
			break
		}
	}
	t.ep = c.epoch
	k := c.key(t)
	if e, ok := c.tab[k]; ok {
		return e
	}
	t.ID = len(c.terms)
	c.terms = append(c.terms, t)
	c.tab[k] = t
	if t.Op == OpVar {
		c.Vars = append(c.Vars, t)
	}
	return t
}

func mask(w int) uint64 {
	if w >= 64 {
		return ^uint64(0)
	}
	return (uint64(1) << uint(w)) - 1
}

func (c *Ctx) Bool(b bool) *Term {
	if b {
		return c.True
	}
	return c.False
}

func (c *Ctx) BV(w int, v uint64) *Term {
	if w <= 0 || w > 64 {
		panic(fmt.Sprintf("smt: BV const width %d", w))
	}
	v &= mask(w)
	if v < 512 {
		if c.small[w] == nil {
			c.small[w] = make([]*Term, 512)
		}
		if t := c.small[w][v]; t != nil {
			return t
		}
		t := c.mk(&Term{Op: OpBVConst, W: w, Val: v})
		c.small[w][v] = t
		return t
	}
	return c.mk(&Term{Op: OpBVConst, W: w, Val: v})
}

func (c *Ctx) Var(name string, w int) *Term {
	return c.mk(&Term{Op: OpVar, W: w, Name: name})
}

func (c *Ctx) FreshVar(prefix string, w int) *Term {
	c.fresh++
	return c.Var(fmt.Sprintf("%s!%d", prefix, c.fresh), w)
}

func (c *Ctx) DeclareUF(name string, args []int, ret int) *UFDecl {
	if d, ok := c.UFs[name]; ok {
		return d
	}
	d := &UFDecl{Name: name, Args: append([]int(nil), args...), Ret: ret}
	c.UFs[name] = d
	c.UFOrd = append(c.UFOrd, d)
	return d
}

func (c *Ctx) UF(name string, ret int, args ...*Term) *Term {
	ws := make([]int, len(args))
	for i, a := range args {
		ws[i] = a.W
	}
	c.DeclareUF(name, ws, ret)
	return c.mk(&Term{Op: OpUF, W: ret, Name: name, Args: args})
}

// ---------- bool ----------

func (c *Ctx) Not(a *Term) *Term {
	if a.W != 0 {
		panic("smt: Not on bv")
	}
	if a.IsConst() {
		return c.Bool(a.Val == 0)
	}
	if a.Op == OpNot {
		return a.Args[0]
	}
	return c.mk(&Term{Op: OpNot, Args: []*Term{a}})
}

func (c *Ctx) And(as ...*Term) *Term {
	var out []*Term
	for _, a := range as {
		if a.W != 0 {
			panic("smt: And on bv")
		}
		if a.IsFalse() {
			return c.False
		}
		if a.IsTrue() {
			continue
		}
		dup := false
		for _, o := range out {
			if o == a {
				dup = true
				break
			}
			if (o.Op == OpNot && o.Args[0] == a) || (a.Op == OpNot && a.Args[0] == o) {
				return c.False
			}
		}
		if !dup {
			out = append(out, a)
		}
	}
	switch len(out) {
	case 0:
		return c.True
	case 1:
		return out[0]
	}
	return c.mk(&Term{Op: OpAnd, Args: out})
}

func (c *Ctx) Or(as ...*Term) *Term {
	var out []*Term
	for _, a := range as {
		if a.W != 0 {
			panic("smt: Or on bv")
		}
		if a.IsTrue() {
			return c.True
		}
		if a.IsFalse() {
			continue
		}
		dup := false
		for _, o := range out {
			if o == a {
				dup = true
				break
			}
			if (o.Op == OpNot && o.Args[0] == a) || (a.Op == OpNot && a.Args[0] == o) {
				return c.True
			}
		}
		if !dup {
			out = append(out, a)
		}
	}
	switch len(out) {
	case 0:
		return c.False
	case 1:
		return out[0]
	}
	return c.mk(&Term{Op: OpOr, Args: out})
}

func (c *Ctx) Implies(a, b *Term) *Term { return c.Or(c.Not(a), b) }
func (c *Ctx) Iff(a, b *Term) *Term     { return c.Eq(a, b) }
func (c *Ctx) XorB(a, b *Term) *Term    { return c.Not(c.Eq(a, b)) }

func (c *Ctx) Ite(cond, a, b *Term) *Term {
	if cond.W != 0 {
		panic("smt: ite cond not bool")
	}
	if a.W != b.W {
		panic(fmt.Sprintf("smt: ite width mismatch %d vs %d", a.W, b.W))
	}
	if cond.IsTrue() {
		return a
	}
	if cond.IsFalse() {
		return b
	}
	if a == b {
		return a
	}
	if a.W == 0 {
		if a.IsTrue() && b.IsFalse() {
			return cond
		}
		if a.IsFalse() && b.IsTrue() {
			return c.Not(cond)
		}
		if a.IsTrue() {
			return c.Or(cond, b)
		}
		if a.IsFalse() {
			return c.And(c.Not(cond), b)
		}
		if b.IsTrue() {
			return c.Or(c.Not(cond), a)
		}
		if b.IsFalse() {
			return c.And(cond, a)
		}
	}
	if cond.Op == OpNot {
		return c.Ite(cond.Args[0], b, a)
	}
	if a.Op == OpIte && a.Args[0] == cond {
		return c.Ite(cond, a.Args[1], b)
	}
	if b.Op == OpIte && b.Args[0] == cond {
		return c.Ite(cond, a, b.Args[2])
	}
	return c.mk(&Term{Op: OpIte, W: a.W, Args: []*Term{cond, a, b}})
}

func (c *Ctx) Eq(a, b *Term) *Term {
	if a.W != b.W {
		panic(fmt.Sprintf("smt: eq width mismatch %d vs %d", a.W, b.W))
	}
	if a == b {
		return c.True
	}
	if a.IsConst() && b.IsConst() {
		return c.Bool(a.Val == b.Val)
	}
	if a.W == 0 {
		if a.IsTrue() {
			return b
		}
		if b.IsTrue() {
			return a
		}
		if a.IsFalse() {
			return c.Not(b)
		}
		if b.IsFalse() {
			return c.Not(a)
		}
	}
	// ite(c, k1, k2) == k  with constants
	if b.IsConst() && isIteConst(a, 4) {
		return c.MapIte(a, func(x *Term) *Term { return c.Eq(x, b) })
	}
	if a.IsConst() && isIteConst(b, 4) {
		return c.MapIte(b, func(x *Term) *Term { return c.Eq(a, x) })
	}
	// zext(x) == const
	if b.IsConst() && a.Op == OpZExt {
		x := a.Args[0]
		if b.Val>>uint(x.W) != 0 {
			return c.False
		}
		return c.Eq(x, c.BV(x.W, b.Val))
	}
	if a.IsConst() && b.Op == OpZExt {
		return c.Eq(b, a)
	}
	if a.ID > b.ID {
		a, b = b, a
	}
	return c.mk(&Term{Op: OpEq, Args: []*Term{a, b}})
}

func (c *Ctx) Ne(a, b *Term) *Term { return c.Not(c.Eq(a, b)) }

// ---------- bit-vectors ----------

func (c *Ctx) chk2(a, b *Term) {
	if a.W != b.W || a.W == 0 {
		panic(fmt.Sprintf("smt: bv width mismatch %d vs %d", a.W, b.W))
	}
}

func sx(v uint64, w int) int64 {
	if w >= 64 {
		return int64(v)
	}
	sh := uint(64 - w)
	return int64(v<<sh) >> sh
}

func (c *Ctx) bin(op Op, a, b *Term) *Term {
	c.chk2(a, b)
	w := a.W
	if a.IsConst() && b.IsConst() && w <= 64 {
		x, y := a.Val, b.Val
		var r uint64
		switch op {
		case OpBVAdd:
			r = x + y
		case OpBVSub:
			r = x - y
		case OpBVMul:
			r = x * y
		case OpBVUDiv:
			if y == 0 {
				r = mask(w)
			} else {
				r = x / y
			}
		case OpBVURem:
			if y == 0 {
				r = x
			} else {
				r = x % y
			}
		case OpBVSDiv:
			sxv, syv := sx(x, w), sx(y, w)
			if syv == 0 {
				if sxv >= 0 {
					r = mask(w)
				} else {
					r = 1
				}
			} else if syv == -1 {
				r = uint64(-sxv)
			} else {
				r = uint64(sxv / syv)
			}
		case OpBVSRem:
			sxv, syv := sx(x, w), sx(y, w)
			if syv == 0 {
				r = x
			} else if syv == -1 {
				r = 0
			} else {
				r = uint64(sxv % syv)
			}
		case OpBVAnd:
			r = x & y
		case OpBVOr:
			r = x | y
		case OpBVXor:
			r = x ^ y
		case OpBVShl:
			if y >= uint64(w) {
				r = 0
			} else {
				r = x << y
			}
		case OpBVLShr:
			if y >= uint64(w) {
				r = 0
			} else {
				r = x >> y
			}
		case OpBVAShr:
			s := sx(x, w)
			if y >= uint64(w) {
				if s < 0 {
					r = mask(w)
				} else {
					r = 0
				}
			} else {
				r = uint64(s >> y)
			}
		}
		return c.BV(w, r)
	}
	if w <= 64 {
		// two small enumerated values (e.g. two '0'/'1' characters): distribute over both
		if isIteConst(a, 1) && isIteConst(b, 1) && (op == OpBVXor || op == OpBVAnd || op == OpBVOr || op == OpBVAdd || op == OpBVSub) {
			return c.MapIte(a, func(x *Term) *Term {
				return c.MapIte(b, func(y *Term) *Term { return c.bin(op, x, y) })
			})
		}
		if b.IsConst() && isIteConst(a, 4) {
			return c.MapIte(a, func(x *Term) *Term { return c.bin(op, x, b) })
		}
		if a.IsConst() && isIteConst(b, 4) {
			return c.MapIte(b, func(x *Term) *Term { return c.bin(op, a, x) })
		}
	}
	// identities
	switch op {
	case OpBVAdd:
		if a.IsConst() && a.Val == 0 {
			return b
		}
		if b.IsConst() && b.Val == 0 {
			return a
		}
		if a.IsConst() { // canonical: const on the right
			a, b = b, a
		}
		// (x + k1) + k2
		if b.IsConst() && a.Op == OpBVAdd && a.Args[1].IsConst() {
			return c.bin(OpBVAdd, a.Args[0], c.BV(w, a.Args[1].Val+b.Val))
		}
	case OpBVSub:
		if b.IsConst() && b.Val == 0 {
			return a
		}
		if a == b {
			return c.BV(w, 0)
		}
		if b.IsConst() {
			return c.bin(OpBVAdd, a, c.BV(w, -b.Val))
		}
	case OpBVMul:
		if a.IsConst() {
			a, b = b, a
		}
		if b.IsConst() {
			if b.Val == 0 {
				return b
			}
			if b.Val == 1 {
				return a
			}
			if bits.OnesCount64(b.Val) == 1 {
				return c.bin(OpBVShl, a, c.BV(w, uint64(bits.TrailingZeros64(b.Val))))
			}
		}
	case OpBVUDiv:
		if b.IsConst() && b.Val == 1 {
			return a
		}
		if b.IsConst() && bits.OnesCount64(b.Val) == 1 {
			return c.bin(OpBVLShr, a, c.BV(w, uint64(bits.TrailingZeros64(b.Val))))
		}
	case OpBVURem:
		if b.IsConst() && b.Val == 1 {
			return c.BV(w, 0)
		}
		if b.IsConst() && bits.OnesCount64(b.Val) == 1 {
			return c.bin(OpBVAnd, a, c.BV(w, b.Val-1))
		}
	case OpBVAnd:
		if a.IsConst() {
			a, b = b, a
		}
		if b.IsConst() {
			if b.Val == 0 {
				return b
			}
			if b.Val == mask(w) {
				return a
			}
			// and(zext(x), m) where m covers x fully
			if a.Op == OpZExt && b.Val&mask(a.Args[0].W) == mask(a.Args[0].W) {
				return a
			}
			// low-mask: and(x, 2^k-1) -> zext(extract(k-1,0,x))
			if b.Val&(b.Val+1) == 0 {
				k := bits.Len64(b.Val)
				return c.ZExt(c.Extract(a, k-1, 0), w)
			}
		}
		if a == b {
			return a
		}
	case OpBVOr:
		if a.IsConst() {
			a, b = b, a
		}
		if b.IsConst() {
			if b.Val == 0 {
				return a
			}
			if b.Val == mask(w) {
				return b
			}
		}
		if a == b {
			return a
		}
	case OpBVXor:
		if a.IsConst() {
			a, b = b, a
		}
		if b.IsConst() && b.Val == 0 {
			return a
		}
		if a == b {
			return c.BV(w, 0)
		}
	case OpBVShl, OpBVLShr, OpBVAShr:
		if b.IsConst() {
			if b.Val == 0 {
				return a
			}
			if b.Val >= uint64(w) && op != OpBVAShr {
				return c.BV(w, 0)
			}
			k := int(b.Val)
			if op == OpBVLShr && k < w {
				return c.ZExt(c.Extract(a, w-1, k), w)
			}
			if op == OpBVShl && k < w {
				return c.Concat(c.Extract(a, w-1-k, 0), c.BV(k, 0))
			}
		}
		if a.IsConst() && a.Val == 0 {
			return a
		}
	}
	if (op == OpBVAdd || op == OpBVMul || op == OpBVAnd || op == OpBVOr || op == OpBVXor) && !b.IsConst() && a.ID > b.ID {
		a, b = b, a
	}
	return c.mk(&Term{Op: op, W: w, Args: []*Term{a, b}})
}

func (c *Ctx) Add(a, b *Term) *Term  { return c.bin(OpBVAdd, a, b) }
func (c *Ctx) Sub(a, b *Term) *Term  { return c.bin(OpBVSub, a, b) }
func (c *Ctx) Mul(a, b *Term) *Term  { return c.bin(OpBVMul, a, b) }
func (c *Ctx) UDiv(a, b *Term) *Term { return c.bin(OpBVUDiv, a, b) }
func (c *Ctx) URem(a, b *Term) *Term { return c.bin(OpBVURem, a, b) }
func (c *Ctx) SDiv(a, b *Term) *Term { return c.bin(OpBVSDiv, a, b) }
func (c *Ctx) SRem(a, b *Term) *Term { return c.bin(OpBVSRem, a, b) }
func (c *Ctx) BAnd(a, b *Term) *Term { return c.bin(OpBVAnd, a, b) }
func (c *Ctx) BOr(a, b *Term) *Term  { return c.bin(OpBVOr, a, b) }
func (c *Ctx) BXor(a, b *Term) *Term { return c.bin(OpBVXor, a, b) }
func (c *Ctx) Shl(a, b *Term) *Term  { return c.bin(OpBVShl, a, b) }
func (c *Ctx) LShr(a, b *Term) *Term { return c.bin(OpBVLShr, a, b) }
func (c *Ctx) AShr(a, b *Term) *Term { return c.bin(OpBVAShr, a, b) }

func (c *Ctx) BNot(a *Term) *Term {
	if a.IsConst() {
		return c.BV(a.W, ^a.Val)
	}
	if a.Op == OpBVNot {
		return a.Args[0]
	}
	if isIteConst(a, 4) {
		return c.MapIte(a, func(x *Term) *Term { return c.BNot(x) })
	}
	return c.mk(&Term{Op: OpBVNot, W: a.W, Args: []*Term{a}})
}

func (c *Ctx) Neg(a *Term) *Term {
	if a.IsConst() {
		return c.BV(a.W, -a.Val)
	}
	return c.mk(&Term{Op: OpBVNeg, W: a.W, Args: []*Term{a}})
}

func (c *Ctx) cmp(op Op, a, b *Term) *Term {
	c.chk2(a, b)
	w := a.W
	if a.IsConst() && b.IsConst() {
		switch op {
		case OpBVULT:
			return c.Bool(a.Val < b.Val)
		case OpBVULE:
			return c.Bool(a.Val <= b.Val)
		case OpBVSLT:
			return c.Bool(sx(a.Val, w) < sx(b.Val, w))
		case OpBVSLE:
			return c.Bool(sx(a.Val, w) <= sx(b.Val, w))
		}
	}
	if a == b {
		return c.Bool(op == OpBVULE || op == OpBVSLE)
	}
	if b.IsConst() && isIteConst(a, 4) {
		return c.MapIte(a, func(x *Term) *Term { return c.cmp(op, x, b) })
	}
	if a.IsConst() && isIteConst(b, 4) {
		return c.MapIte(b, func(x *Term) *Term { return c.cmp(op, a, x) })
	}
	switch op {
	case OpBVULT:
		if b.IsConst() && b.Val == 0 {
			return c.False
		}
		if a.IsConst() && a.Val == mask(w) {
			return c.False
		}
	case OpBVULE:
		if a.IsConst() && a.Val == 0 {
			return c.True
		}
		if b.IsConst() && b.Val == mask(w) {
			return c.True
		}
	}
	// comparisons of zero-extended small value against a large constant
	if a.Op == OpZExt && b.IsConst() {
		xw := a.Args[0].W
		if xw < 63 {
			lim := mask(xw)
			sb := sx(b.Val, w)
			switch op {
			case OpBVULT:
				if b.Val > lim {
					return c.True
				}
			case OpBVULE:
				if b.Val >= lim {
					return c.True
				}
			case OpBVSLT:
				if sb > int64(lim) {
					return c.True
				}
				if sb <= 0 {
					return c.False
				}
			case OpBVSLE:
				if sb >= int64(lim) {
					return c.True
				}
				if sb < 0 {
					return c.False
				}
			}
		}
	}
	if b.Op == OpZExt && a.IsConst() {
		xw := b.Args[0].W
		if xw < 63 {
			lim := mask(xw)
			sa := sx(a.Val, w)
			switch op {
			case OpBVULT:
				if a.Val >= lim {
					return c.False
				}
			case OpBVULE:
				if a.Val > lim {
					return c.False
				}
			case OpBVSLT:
				if sa < 0 {
					return c.True
				}
				if sa >= int64(lim) {
					return c.False
				}
			case OpBVSLE:
				if sa <= 0 {
					return c.True
				}
				if sa > int64(lim) {
					return c.False
				}
			}
		}
	}
	return c.mk(&Term{Op: op, Args: []*Term{a, b}})
}

func (c *Ctx) ULT(a, b *Term) *Term { return c.cmp(OpBVULT, a, b) }
func (c *Ctx) ULE(a, b *Term) *Term { return c.cmp(OpBVULE, a, b) }
func (c *Ctx) SLT(a, b *Term) *Term { return c.cmp(OpBVSLT, a, b) }
func (c *Ctx) SLE(a, b *Term) *Term { return c.cmp(OpBVSLE, a, b) }

func (c *Ctx) Concat(hi, lo *Term) *Term {
	if hi.W == 0 || lo.W == 0 {
		panic("smt: concat on bool")
	}
	w := hi.W + lo.W
	if hi.IsConst() && lo.IsConst() && w <= 64 {
		return c.BV(w, hi.Val<<uint(lo.W)|lo.Val)
	}
	if hi.IsConst() && hi.Val == 0 && w <= 64 {
		return c.ZExt(lo, w)
	}
	// concat(extract(x,h,m+1), extract(x,m,l)) -> extract(x,h,l)
	if hi.Op == OpExtract && lo.Op == OpExtract && hi.Args[0] == lo.Args[0] && hi.P2 == lo.P1+1 {
		return c.Extract(hi.Args[0], hi.P1, lo.P2)
	}
	return c.mk(&Term{Op: OpConcat, W: w, Args: []*Term{hi, lo}})
}

func (c *Ctx) Extract(a *Term, hi, lo int) *Term {
	if a.W == 0 || hi >= a.W || lo < 0 || hi < lo {
		panic(fmt.Sprintf("smt: bad extract [%d:%d] of width %d", hi, lo, a.W))
	}
	w := hi - lo + 1
	if w == a.W {
		return a
	}
	if a.IsConst() {
		return c.BV(w, a.Val>>uint(lo))
	}
	switch a.Op {
	case OpExtract:
		return c.Extract(a.Args[0], a.P2+hi, a.P2+lo)
	case OpZExt:
		x := a.Args[0]
		if hi < x.W {
			return c.Extract(x, hi, lo)
		}
		if lo >= x.W {
			return c.BV(w, 0)
		}
		return c.ZExt(c.Extract(x, x.W-1, lo), w)
	case OpSExt:
		x := a.Args[0]
		if hi < x.W {
			return c.Extract(x, hi, lo)
		}
	case OpConcat:
		h, l := a.Args[0], a.Args[1]
		if hi < l.W {
			return c.Extract(l, hi, lo)
		}
		if lo >= l.W {
			return c.Extract(h, hi-l.W, lo-l.W)
		}
		return c.Concat(c.Extract(h, hi-l.W, 0), c.Extract(l, l.W-1, lo))
	case OpBVAnd, OpBVOr, OpBVXor:
		return c.bin(a.Op, c.Extract(a.Args[0], hi, lo), c.Extract(a.Args[1], hi, lo))
	case OpBVNot:
		return c.BNot(c.Extract(a.Args[0], hi, lo))
	case OpIte:
		if a.Args[1].IsConst() || a.Args[2].IsConst() || isIteConst(a, 4) {
			return c.Ite(a.Args[0], c.Extract(a.Args[1], hi, lo), c.Extract(a.Args[2], hi, lo))
		}
	case OpBVAdd, OpBVSub, OpBVMul:
		if lo == 0 {
			return c.bin(a.Op, c.Extract(a.Args[0], hi, 0), c.Extract(a.Args[1], hi, 0))
		}
	}
	return c.mk(&Term{Op: OpExtract, W: w, Args: []*Term{a}, P1: hi, P2: lo})
}

func (c *Ctx) ZExt(a *Term, w int) *Term {
	if a.W == 0 || w < a.W {
		panic(fmt.Sprintf("smt: bad zext %d -> %d", a.W, w))
	}
	if w == a.W {
		return a
	}
	if a.IsConst() && w <= 64 {
		return c.BV(w, a.Val)
	}
	if a.Op == OpZExt {
		return c.ZExt(a.Args[0], w)
	}
	if w <= 64 && isIteConst(a, 4) {
		return c.MapIte(a, func(x *Term) *Term { return c.ZExt(x, w) })
	}
	return c.mk(&Term{Op: OpZExt, W: w, Args: []*Term{a}, P1: w - a.W})
}

func (c *Ctx) SExt(a *Term, w int) *Term {
	if a.W == 0 || w < a.W {
		panic(fmt.Sprintf("smt: bad sext %d -> %d", a.W, w))
	}
	if w == a.W {
		return a
	}
	if a.IsConst() && w <= 64 {
		return c.BV(w, uint64(sx(a.Val, a.W)))
	}
	if a.Op == OpZExt { // sign bit is 0
		return c.ZExt(a.Args[0], w)
	}
	if a.Op == OpSExt {
		return c.SExt(a.Args[0], w)
	}
	if w <= 64 && isIteConst(a, 4) {
		return c.MapIte(a, func(x *Term) *Term { return c.SExt(x, w) })
	}
	return c.mk(&Term{Op: OpSExt, W: w, Args: []*Term{a}, P1: w - a.W})
}

// Resize converts a to width w (truncate or extend, signed selects sext).
func (c *Ctx) Resize(a *Term, w int, signed bool) *Term {
	if a.W == w {
		return a
	}
	if a.W > w {
		return c.Extract(a, w-1, 0)
	}
	if signed {
		return c.SExt(a, w)
	}
	return c.ZExt(a, w)
}

// BoolToBV gives ite(b,1,0) of width w.
func (c *Ctx) BoolToBV(b *Term, w int) *Term { return c.Ite(b, c.BV(w, 1), c.BV(w, 0)) }

// PopCount over a bit-vector, result same width.
func (c *Ctx) PopCount(a *Term) *Term {
	if a.IsConst() {
		return c.BV(a.W, uint64(bits.OnesCount64(a.Val)))
	}
	w := a.W
	sum := c.BV(w, 0)
	for i := 0; i < w; i++ {
		sum = c.Add(sum, c.ZExt(c.Extract(a, i, i), w))
	}
	return sum
}

// IsIteConst reports whether t is a (small) ite tree whose leaves are all constants.
func IsIteConst(t *Term) bool { return isIteConst(t, 4) }

func isIteConst(t *Term, depth int) bool {
	if t.Op != OpIte || depth == 0 {
		return false
	}
	a, b := t.Args[1], t.Args[2]
	return (a.IsConst() || isIteConst(a, depth-1)) && (b.IsConst() || isIteConst(b, depth-1))
}

// MapIte applies f to every leaf of an ite tree and rebuilds the tree.
func (c *Ctx) MapIte(t *Term, f func(*Term) *Term) *Term {
	if t.Op == OpIte && !t.IsConst() {
		return c.Ite(t.Args[0], c.MapIte(t.Args[1], f), c.MapIte(t.Args[2], f))
	}
	return f(t)
}
