package smt

import (
	"bufio"
	"fmt"
	"io"
	"os/exec"
	"strconv"
	"strings"
	"time"
)

type Result int

const (
	Unsat Result = iota
	Sat
	Unknown
)

func (r Result) String() string { return [...]string{"unsat", "sat", "unknown"}[r] }

// Solver is one long-lived solver process. Definitions are global
// (:global-declarations), assertions follow a push/pop stack.
type Solver struct {
	Kind      string // z3 | z3-new | cvc5 | cvc5-int
	cmd       *exec.Cmd
	in        io.WriteCloser
	out       *bufio.Reader
	ctx       *Ctx
	defined   map[int]bool
	declUF    map[string]bool
	seq       int
	depth     int
	Queries   int
	Time      time.Duration
	Errors    []string
	SendTime  time.Duration
	SentBytes int64
	Log       io.Writer
	tmo       int
	// Dead is set when the solver process was killed by the watchdog (it ignored its own time
	// limit) or died; Restart brings up a fresh process with an empty stack.
	Dead  bool
	Kills int
}

func NewSolver(kind string, ctx *Ctx, timeoutMs int) (*Solver, error) {
	s := &Solver{Kind: kind, ctx: ctx, tmo: timeoutMs}
	if err := s.start(); err != nil {
		return nil, err
	}
	return s, nil
}

func (s *Solver) start() error {
	var cmd *exec.Cmd
	kind, timeoutMs := s.Kind, s.tmo
	switch kind {
	case "z3":
		cmd = exec.Command("z3", "-in", "-t:"+strconv.Itoa(timeoutMs))
	case "z3-new":
		cmd = exec.Command("z3-new", "-in", "-t:"+strconv.Itoa(timeoutMs))
	case "cvc5":
		cmd = exec.Command("cvc5", "--incremental", "--lang=smt2", "--tlimit-per="+strconv.Itoa(timeoutMs))
	case "cvc5-int":
		cmd = exec.Command("cvc5", "--incremental", "--lang=smt2", "--solve-bv-as-int=sum", "--tlimit-per="+strconv.Itoa(timeoutMs))
	default:
		return fmt.Errorf("unknown solver %q", kind)
	}
	in, err := cmd.StdinPipe()
	if err != nil {
		return err
	}
	outp, err := cmd.StdoutPipe()
	if err != nil {
		return err
	}
	cmd.Stderr = cmd.Stdout
	if err := cmd.Start(); err != nil {
		return err
	}
	s.cmd, s.in, s.out = cmd, in, bufio.NewReaderSize(outp, 1<<20)
	s.defined, s.declUF = map[int]bool{}, map[string]bool{}
	s.depth = 0
	s.Dead = false
	s.send("(set-option :global-declarations true)\n(set-option :produce-models true)\n")
	if strings.HasPrefix(kind, "cvc5") {
		s.send("(set-logic ALL)\n")
	}
	if _, err := s.sync(); err != nil {
		return err
	}
	return nil
}

// Restart replaces a dead solver process by a fresh one (empty assertion stack, nothing defined).
func (s *Solver) Restart() error {
	if s.cmd != nil {
		s.in.Close()
		s.cmd.Process.Kill()
		s.cmd.Wait()
		s.cmd = nil
	}
	return s.start()
}

func (s *Solver) Close() {
	if s == nil || s.cmd == nil {
		return
	}
	s.in.Close()
	s.cmd.Process.Kill()
	s.cmd.Wait()
	s.cmd = nil
}

func (s *Solver) send(str string) {
	if s.Log != nil {
		io.WriteString(s.Log, str)
	}
	t0 := time.Now()
	io.WriteString(s.in, str)
	s.SendTime += time.Since(t0)
	s.SentBytes += int64(len(str))
}

// sync sends an echo marker and collects every line up to it.
func (s *Solver) sync() ([]string, error) {
	s.seq++
	mark := "SYNC-" + strconv.Itoa(s.seq)
	s.send("(echo \"" + mark + "\")\n")
	var lines []string
	// watchdog: some solver phases ignore the soft time limit; a query that is still running at
	// several times its limit is abandoned by killing the process (the caller restarts it and
	// treats the query as unknown)
	hard := time.Duration(3*s.tmo)*time.Millisecond + 15*time.Second
	proc := s.cmd.Process
	killed := false
	wd := time.AfterFunc(hard, func() { killed = true; proc.Kill() })
	defer wd.Stop()
	for {
		line, err := s.out.ReadString('\n')
		if err != nil {
			s.Dead = true
			if killed {
				s.Kills++
				return lines, fmt.Errorf("solver %s killed by watchdog after %v", s.Kind, hard)
			}
			return lines, fmt.Errorf("solver %s died: %v (%v)", s.Kind, err, lines)
		}
		line = strings.TrimSpace(line)
		if line == mark || line == "\""+mark+"\"" {
			break
		}
		if line == "" {
			continue
		}
		if strings.Contains(line, "(error") {
			s.Errors = append(s.Errors, line)
		}
		lines = append(lines, line)
	}
	return lines, nil
}

func sortStr(w int) string {
	if w == 0 {
		return "Bool"
	}
	return "(_ BitVec " + strconv.Itoa(w) + ")"
}

func constStr(t *Term) string {
	if t.W == 0 {
		if t.Val == 1 {
			return "true"
		}
		return "false"
	}
	if t.W%4 == 0 {
		return fmt.Sprintf("#x%0*x", t.W/4, t.Val)
	}
	return fmt.Sprintf("#b%0*b", t.W, t.Val)
}

func quoteName(n string) string { return "|" + n + "|" }

func (s *Solver) ref(t *Term) string {
	switch t.Op {
	case OpBoolConst, OpBVConst:
		return constStr(t)
	case OpVar:
		return quoteName(t.Name)
	}
	return "t" + strconv.Itoa(t.ID)
}

// define makes sure t (and all its sub-terms) are known to the solver.
func (s *Solver) define(t *Term, sb *strings.Builder) {
	if s.defined[t.ID] {
		return
	}
	// iterative post-order
	type fr struct {
		t *Term
		i int
	}
	stack := []fr{{t, 0}}
	for len(stack) > 0 {
		top := &stack[len(stack)-1]
		if s.defined[top.t.ID] {
			stack = stack[:len(stack)-1]
			continue
		}
		if top.i < len(top.t.Args) {
			a := top.t.Args[top.i]
			top.i++
			if !s.defined[a.ID] {
				stack = append(stack, fr{a, 0})
			}
			continue
		}
		n := top.t
		stack = stack[:len(stack)-1]
		s.defined[n.ID] = true
		switch n.Op {
		case OpBoolConst, OpBVConst:
			continue
		case OpVar:
			fmt.Fprintf(sb, "(declare-const %s %s)\n", quoteName(n.Name), sortStr(n.W))
			continue
		}
		if n.Op == OpUF && !s.declUF[n.Name] {
			s.declUF[n.Name] = true
			d := s.ctx.UFs[n.Name]
			sb.WriteString("(declare-fun " + quoteName(d.Name) + " (")
			for _, w := range d.Args {
				sb.WriteString(sortStr(w) + " ")
			}
			sb.WriteString(") " + sortStr(d.Ret) + ")\n")
		}
		fmt.Fprintf(sb, "(define-fun t%d () %s ", n.ID, sortStr(n.W))
		switch n.Op {
		case OpExtract:
			fmt.Fprintf(sb, "((_ extract %d %d) %s)", n.P1, n.P2, s.ref(n.Args[0]))
		case OpZExt:
			fmt.Fprintf(sb, "((_ zero_extend %d) %s)", n.P1, s.ref(n.Args[0]))
		case OpSExt:
			fmt.Fprintf(sb, "((_ sign_extend %d) %s)", n.P1, s.ref(n.Args[0]))
		case OpUF:
			if len(n.Args) == 0 {
				sb.WriteString(quoteName(n.Name))
			} else {
				sb.WriteString("(" + quoteName(n.Name))
				for _, a := range n.Args {
					sb.WriteString(" " + s.ref(a))
				}
				sb.WriteString(")")
			}
		default:
			sb.WriteString("(" + opNames[n.Op])
			for _, a := range n.Args {
				sb.WriteString(" " + s.ref(a))
			}
			sb.WriteString(")")
		}
		sb.WriteString(")\n")
	}
}

// Push asserts t on a new level.
func (s *Solver) Push(t *Term) {
	var sb strings.Builder
	s.define(t, &sb)
	sb.WriteString("(push 1)\n(assert " + s.ref(t) + ")\n")
	s.send(sb.String())
	s.depth++
}

func (s *Solver) Pop(n int) {
	if n <= 0 {
		return
	}
	s.send("(pop " + strconv.Itoa(n) + ")\n")
	s.depth -= n
}

func (s *Solver) Depth() int { return s.depth }

// Check runs check-sat under the current stack plus extra assertions.
func (s *Solver) Check(extra ...*Term) (Result, error) {
	var sb strings.Builder
	for _, e := range extra {
		s.define(e, &sb)
	}
	if len(extra) > 0 {
		sb.WriteString("(push 1)\n")
		for _, e := range extra {
			sb.WriteString("(assert " + s.ref(e) + ")\n")
		}
	}
	sb.WriteString("(check-sat)\n")
	t0 := time.Now()
	s.send(sb.String())
	nerr := len(s.Errors)
	lines, err := s.sync()
	s.Time += time.Since(t0)
	s.Queries++
	if len(extra) > 0 {
		s.send("(pop 1)\n")
	}
	if err != nil {
		return Unknown, err
	}
	if len(s.Errors) > nerr {
		return Unknown, fmt.Errorf("solver error: %s", strings.Join(s.Errors[nerr:], "; "))
	}
	for _, l := range lines {
		switch l {
		case "sat":
			return Sat, nil
		case "unsat":
			return Unsat, nil
		case "unknown", "timeout":
			return Unknown, nil
		}
	}
	return Unknown, fmt.Errorf("no verdict from solver: %v", lines)
}

// CheckModel is Check that, on sat, also returns the values of the given terms.
func (s *Solver) CheckModel(extra []*Term, want []*Term) (Result, []uint64, error) {
	var sb strings.Builder
	for _, e := range extra {
		s.define(e, &sb)
	}
	for _, e := range want {
		s.define(e, &sb)
	}
	sb.WriteString("(push 1)\n")
	for _, e := range extra {
		sb.WriteString("(assert " + s.ref(e) + ")\n")
	}
	sb.WriteString("(check-sat)\n")
	t0 := time.Now()
	s.send(sb.String())
	nerr := len(s.Errors)
	lines, err := s.sync()
	s.Time += time.Since(t0)
	s.Queries++
	res := Unknown
	if err == nil {
		for _, l := range lines {
			switch l {
			case "sat":
				res = Sat
			case "unsat":
				res = Unsat
			}
		}
	}
	if len(s.Errors) > nerr {
		err = fmt.Errorf("solver error: %s", strings.Join(s.Errors[nerr:], "; "))
		res = Unknown
	}
	var vals []uint64
	if res == Sat && len(want) > 0 {
		vals = make([]uint64, len(want))
		// query in chunks to keep lines manageable
		for i := 0; i < len(want); i += 64 {
			j := i + 64
			if j > len(want) {
				j = len(want)
			}
			var q strings.Builder
			q.WriteString("(get-value (")
			for _, w := range want[i:j] {
				q.WriteString(s.ref(w) + " ")
			}
			q.WriteString("))\n")
			s.send(q.String())
			ls, e2 := s.sync()
			if e2 != nil {
				err = e2
				break
			}
			vs, e3 := parseValues(strings.Join(ls, " "), j-i)
			if e3 != nil {
				err = e3
				break
			}
			copy(vals[i:j], vs)
		}
	}
	s.send("(pop 1)\n")
	if err != nil {
		return Unknown, nil, err
	}
	return res, vals, nil
}

// parseValues parses "((a #x01) (b true) ...)" and returns the values in order.
func parseValues(s string, n int) ([]uint64, error) {
	toks := tokenize(s)
	// Walk: expect ( ( name value ) ... )
	var vals []uint64
	depth := 0
	i := 0
	for i < len(toks) {
		t := toks[i]
		switch t {
		case "(":
			depth++
			i++
			if depth == 2 {
				// skip name expr (may be a parenthesised term), then read value
				i = skipExpr(toks, i)
				v, ni, err := readValue(toks, i)
				if err != nil {
					return nil, err
				}
				vals = append(vals, v)
				i = ni
			}
		case ")":
			depth--
			i++
		default:
			i++
		}
	}
	if len(vals) != n {
		return nil, fmt.Errorf("get-value: expected %d values, got %d from %q", n, len(vals), s)
	}
	return vals, nil
}

func tokenize(s string) []string {
	var toks []string
	i := 0
	for i < len(s) {
		c := s[i]
		switch {
		case c == '(' || c == ')':
			toks = append(toks, string(c))
			i++
		case c == ' ' || c == '\t' || c == '\n' || c == '\r':
			i++
		case c == '|':
			j := i + 1
			for j < len(s) && s[j] != '|' {
				j++
			}
			toks = append(toks, s[i:j+1])
			i = j + 1
		default:
			j := i
			for j < len(s) && s[j] != '(' && s[j] != ')' && s[j] != ' ' && s[j] != '\n' {
				j++
			}
			toks = append(toks, s[i:j])
			i = j
		}
	}
	return toks
}

func skipExpr(toks []string, i int) int {
	if i >= len(toks) {
		return i
	}
	if toks[i] != "(" {
		return i + 1
	}
	d := 0
	for i < len(toks) {
		if toks[i] == "(" {
			d++
		} else if toks[i] == ")" {
			d--
			if d == 0 {
				return i + 1
			}
		}
		i++
	}
	return i
}

func readValue(toks []string, i int) (uint64, int, error) {
	if i >= len(toks) {
		return 0, i, fmt.Errorf("get-value: truncated")
	}
	t := toks[i]
	switch {
	case t == "true":
		return 1, i + 1, nil
	case t == "false":
		return 0, i + 1, nil
	case strings.HasPrefix(t, "#x"):
		if len(t) > 18 {
			t = "#x" + t[len(t)-16:]
		}
		v, err := strconv.ParseUint(t[2:], 16, 64)
		return v, i + 1, err
	case strings.HasPrefix(t, "#b"):
		if len(t) > 66 {
			t = "#b" + t[len(t)-64:]
		}
		v, err := strconv.ParseUint(t[2:], 2, 64)
		return v, i + 1, err
	case t == "(":
		// (_ bvN w)
		if i+3 < len(toks) && toks[i+1] == "_" && strings.HasPrefix(toks[i+2], "bv") {
			v, err := strconv.ParseUint(toks[i+2][2:], 10, 64)
			return v, skipExpr(toks, i), err
		}
	}
	return 0, i, fmt.Errorf("get-value: cannot parse value at %q", t)
}
