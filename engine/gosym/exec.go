package gosym

import (
	"fmt"
	"os"
	"go/types"
	"sort"
	"strings"
	"time"

	"golang.org/x/tools/go/ssa"
	"verif/engine/smt"
)

// ---------- path termination ----------

type pathEnd struct {
	kind string // "infeasible" | "unsupported" | "unwind" | "unknown" | "violation" | "done" | "limit"
	msg  string
}

func (p *pathEnd) Error() string { return p.kind + ": " + p.msg }

// goPanic is a Go-level panic travelling through the host stack.
type goPanic struct {
	val     Value  // IfaceV
	runtime string // non-empty for runtime errors (index out of range ...)
	where   string
}

func (ex *Exec) unsupported(format string, a ...interface{}) *pathEnd {
	return &pathEnd{kind: "unsupported", msg: fmt.Sprintf(format, a...) + " @ " + ex.where()}
}

func (ex *Exec) where() string {
	if len(ex.stack) == 0 {
		return "?"
	}
	var parts []string
	for i := len(ex.stack) - 1; i >= 0 && len(parts) < 6; i-- {
		fr := ex.stack[i]
		pos := ""
		if fr.cur != nil {
			p := ex.prog.Fset.Position(fr.cur.Pos())
			if p.IsValid() {
				f := p.Filename
				if j := strings.LastIndex(f, "/"); j >= 0 {
					f = f[j+1:]
				}
				pos = fmt.Sprintf("(%s:%d)", f, p.Line)
			}
		}
		parts = append(parts, fr.fn.String()+pos)
	}
	return strings.Join(parts, " <- ")
}

// ---------- configuration & results ----------

type Config struct {
	MaxIter          int               // per-frame visits of one block before an unwinding failure
	MaxDepth         int               // call depth
	MaxPaths         int               // per-harness path cap (0 = none)
	QueryMs          int               // per-query solver timeout
	Stubs            map[string]string // function name (or prefix ending in *) -> "zero" | "noop" | "havoc"
	PanicIsViolation bool              // an uncaught Go panic on a feasible path is a violation
	Inputs           map[string]uint64 // replay mode: fixed values for named inputs
	NoMerge          bool
	NoMergeFns       []string
	Fixed            map[string]uint64 // debugging: inputs pinned to constants while the rest stay symbolic
	NoFallback       bool
	FallbackMs       int
	Deadline         time.Time
	Trace            bool
}

type Obligation struct {
	Name       string
	Site       string
	Discharged int
	Violated   int
	Unknown    int
	Trivial    int // condition folded to constant true
}

type Violation struct {
	Harness string
	Name    string
	Site    string
	Kind    string // assert | panic
	Msg     string
	Inputs  map[string]uint64
	Trail   []uint64
	Notes   []string
}

type Stats struct {
	Paths         int
	PathsDone     int
	Infeasible    int
	Unsupported   map[string]int
	UnwindFail    int
	SolverUnknown int
	Queries       int
	SolverTime    time.Duration
	Instrs        int64
	Funcs         map[string]int // executed functions with bodies -> instruction count executed
	Obligations   map[string]*Obligation
	Reached       map[string]int
	Violations    []*Violation
	Samples       []map[string]interface{}
	Stubbed       map[string]int
	Assumes       int
	PanicPaths    int
	LimitHit      bool
	Emits         map[string]uint64
	Merges        int
	ModelHits     int
	Fallbacks     int
	SolverKills   int
	SchedDecisions int
	PathWall      time.Duration
	FallbackTime  time.Duration
	MergeAborts   map[string]int
}

func newStats() *Stats {
	return &Stats{Unsupported: map[string]int{}, Funcs: map[string]int{}, Obligations: map[string]*Obligation{},
		Reached: map[string]int{}, Stubbed: map[string]int{}, Emits: map[string]uint64{}, MergeAborts: map[string]int{}}
}

func (s *Stats) Merge(o *Stats) {
	s.Paths += o.Paths
	s.PathsDone += o.PathsDone
	s.Infeasible += o.Infeasible
	s.UnwindFail += o.UnwindFail
	s.SolverUnknown += o.SolverUnknown
	s.Queries += o.Queries
	s.SolverTime += o.SolverTime
	s.Instrs += o.Instrs
	s.Assumes += o.Assumes
	s.PanicPaths += o.PanicPaths
	s.LimitHit = s.LimitHit || o.LimitHit
	for k, v := range o.Unsupported {
		s.Unsupported[k] += v
	}
	for k, v := range o.Funcs {
		s.Funcs[k] += v
	}
	for k, v := range o.Reached {
		s.Reached[k] += v
	}
	for k, v := range o.Stubbed {
		s.Stubbed[k] += v
	}
	for k, v := range o.Emits {
		s.Emits[k] = v
	}
	s.Merges += o.Merges
	s.ModelHits += o.ModelHits
	s.Fallbacks += o.Fallbacks
	s.SolverKills += o.SolverKills
	s.SchedDecisions += o.SchedDecisions
	s.PathWall += o.PathWall
	s.FallbackTime += o.FallbackTime
	for k, v := range o.MergeAborts {
		s.MergeAborts[k] += v
	}
	for k, v := range o.Obligations {
		e := s.Obligations[k]
		if e == nil {
			e = &Obligation{Name: v.Name, Site: v.Site}
			s.Obligations[k] = e
		}
		e.Discharged += v.Discharged
		e.Violated += v.Violated
		e.Unknown += v.Unknown
		e.Trivial += v.Trivial
	}
	s.Violations = append(s.Violations, o.Violations...)
	for _, smp := range o.Samples {
		if len(s.Samples) < 12 {
			s.Samples = append(s.Samples, smp)
		}
	}
}

// ---------- executor ----------

type frame struct {
	fn          *ssa.Function
	info        *fnInfo
	vals        []Value
	env         []Value
	cur         ssa.Instruction
	defers      []deferred
	visits      []int32
	panicking   *goPanic
	region      int
	regionHeads []*ssa.BasicBlock
	recovered   bool
	results     Value
}

type deferred struct {
	fv   *FuncV
	args []Value
	// invoke-mode defers
	invoke *ssa.CallCommon
}

type fnInfo struct {
	index map[ssa.Value]int
	n     int
}

type undoRec struct {
	c    *Cell
	v    Value
	kidI int
	kind int // 0 leaf value, 1 kid materialised, 2 map snapshot
	m    *MapObj
	ents []mapEntry
}

type inputVar struct {
	Name string
	T    *smt.Term
}

type Exec struct {
	prog   *ssa.Program
	ctx    *smt.Ctx
	solver *smt.Solver
	alt    *smt.Solver
	alt2   *smt.Solver
	cfg    *Config
	stats  *Stats
	world  *World

	// per path
	trail       []uint64
	pos         int
	decided     []uint64
	pending     [][]uint64 // alternatives discovered on this path
	pc          []*smt.Term
	stack       []*frame
	inputs      []inputVar
	inputSet    map[string]*smt.Term
	notes       []string
	harness     string
	replaced    map[string]*FuncV
	nowSeq      int
	lastNow     *smt.Term
	panics      []*frame // frames currently running defers because of a panic
	ghost       map[string]interface{}
	baseGhost   map[string]interface{} // written by package initialisers; every path starts from it
	threads     []*thread
	cur         *thread
	thrSeq      int
	explore     bool
	preemptLeft int
	schedSeq    int
	guards      []guardLevel
	mlog        []mlogRec
	pendingEval *smt.Evaluator
	pcLits      map[*smt.Term]int
	ufApps      []ufApp
	traces      []traceRec
	eval        *smt.Evaluator // model satisfying the current path condition (nil: unknown)

	// per worker
	fnInfos    map[*ssa.Function]*fnInfo
	globals    map[*ssa.Global]*Cell
	inited     map[*ssa.Package]bool
	initMode   int
	initTarget *ssa.Package
	undo       []undoRec
	cellSeq    int
	objSeq     int
	byteTab    [256]*smt.Term
	funcVals   map[*ssa.Function]*FuncV
	typeCells  map[string]*Cell
	uniq       map[string]Value
	intr       map[string]intrinsic
	nSamples   int
	lastHow    string
	noLits     bool
	pdoms      map[*ssa.Function]*pdomInfo
	regionOK   map[*ssa.BasicBlock]bool
	joinOf     map[*ssa.BasicBlock]*ssa.BasicBlock
	mergeFails map[*ssa.BasicBlock]int
	mergeOKs   map[*ssa.BasicBlock]int
}

func NewExec(w *World, cfg *Config) (*Exec, error) {
	ctx := smt.NewCtx()
	tmo := cfg.QueryMs
	if tmo == 0 {
		tmo = 10000
	}
	sol, err := smt.NewSolver("z3", ctx, tmo)
	if err != nil {
		return nil, err
	}
	if cfg.MaxIter == 0 {
		cfg.MaxIter = 300
	}
	if cfg.MaxDepth == 0 {
		cfg.MaxDepth = 200
	}
	ex := &Exec{prog: w.Prog, ctx: ctx, solver: sol, cfg: cfg, world: w, stats: newStats(),
		fnInfos: map[*ssa.Function]*fnInfo{}, globals: map[*ssa.Global]*Cell{}, inited: map[*ssa.Package]bool{},
		funcVals: map[*ssa.Function]*FuncV{}, typeCells: map[string]*Cell{}, uniq: map[string]Value{}}
	ex.intr = intrinsicTable()
	ex.pdoms = map[*ssa.Function]*pdomInfo{}
	ex.regionOK = map[*ssa.BasicBlock]bool{}
	ex.joinOf = map[*ssa.BasicBlock]*ssa.BasicBlock{}
	ex.mergeFails = map[*ssa.BasicBlock]int{}
	ex.mergeOKs = map[*ssa.BasicBlock]int{}
	return ex, nil
}

// ResetContext starts a fresh term table and solver processes (the hash-cons table only
// grows; long explorations reset it between paths). Package-level state keeps its constant
// terms, which are re-interned on use.
func (ex *Exec) ResetContext() error {
	ex.Close()
	ex.ctx = smt.NewCtx()
	tmo := ex.cfg.QueryMs
	if tmo == 0 {
		tmo = 10000
	}
	sol, err := smt.NewSolver("z3", ex.ctx, tmo)
	if err != nil {
		return err
	}
	ex.solver, ex.alt, ex.alt2 = sol, nil, nil
	ex.byteTab = [256]*smt.Term{}
	return nil
}

func (ex *Exec) NumTerms() int { return ex.ctx.NumTerms() }

func (ex *Exec) Close() {
	ex.solver.Close()
	if ex.alt != nil {
		ex.alt.Close()
	}
	if ex.alt2 != nil {
		ex.alt2.Close()
	}
}
func (ex *Exec) Stats() *Stats { return ex.stats }

// RunPath executes harness fn once following trail; returns alternatives found.
func (ex *Exec) RunPath(fn *ssa.Function, trail []uint64) (alts [][]uint64) {
	ex.trail = trail
	ex.pos = 0
	ex.decided = ex.decided[:0]
	ex.pending = nil
	ex.pc = ex.pc[:0]
	ex.stack = ex.stack[:0]
	ex.inputs = ex.inputs[:0]
	ex.inputSet = map[string]*smt.Term{}
	ex.notes = nil
	ex.harness = fn.Name()
	ex.replaced = map[string]*FuncV{}
	ex.nowSeq = 0
	ex.lastNow = nil
	ex.panics = nil
	ex.ghost = make(map[string]interface{}, len(ex.baseGhost))
	for k, v := range ex.baseGhost {
		ex.ghost[k] = v
	}
	ex.threads = nil
	ex.cur = nil
	ex.thrSeq = 0
	ex.explore = false
	ex.preemptLeft = 0
	ex.schedSeq = 0
	ex.guards = nil
	ex.mlog = nil
	ex.eval = smt.NewEvaluator(map[*smt.Term]uint64{})
	ex.pcLits = map[*smt.Term]int{}
	ex.ufApps = nil
	ex.traces = nil
	ex.solver.Pop(ex.solver.Depth())
	ex.stats.Paths++
	q0, t0 := ex.solver.Queries, ex.solver.Time
	wall0 := time.Now()

	defer func() {
		ex.stats.PathWall += time.Since(wall0)
		ex.stats.Queries += ex.solver.Queries - q0
		ex.stats.SolverTime += ex.solver.Time - t0
		r := recover()
		ex.killThreads()
		ex.rollback()
		alts = ex.pending
		if r == nil {
			ex.stats.PathsDone++
			if ex.cfg.Inputs != nil && len(ex.traces) > 0 {
				m := map[string]interface{}{"harness": ex.harness}
				for _, tr := range ex.traces {
					if tr.t.IsConst() {
						m["trace "+tr.name] = tr.t.Val
					} else {
						m["trace "+tr.name] = "symbolic"
					}
				}
				ex.stats.Samples = append(ex.stats.Samples, m)
			}
			ex.sample()
			return
		}
		switch e := r.(type) {
		case *pathEnd:
			switch e.kind {
			case "infeasible":
				ex.stats.Infeasible++
			case "unsupported":
				k := e.msg
				ex.stats.Unsupported[k]++
			case "unwind":
				ex.stats.UnwindFail++
				ex.stats.Unsupported["unwind: "+e.msg]++
			case "unknown":
				ex.stats.SolverUnknown++
			case "violation":
				// recorded already
			case "limit":
				ex.stats.LimitHit = true
			case "done":
				ex.stats.PathsDone++
			}
		case *goPanic:
			ex.stats.PanicPaths++
			if ex.cfg.PanicIsViolation {
				ex.recordViolation("panic", "no-panic", e.where, ex.panicString(e))
			} else {
				ex.stats.Unsupported["uncaught Go panic: "+ex.panicString(e)+" @ "+e.where]++
			}
		default:
			// an internal error of the executor: report where, count the path as unsupported
			ex.stats.Unsupported[fmt.Sprintf("executor error: %v @ %s", r, ex.where())]++
		}
	}()
	ex.call(ex.funcValue(fn), nil)
	return
}

func (ex *Exec) sample() {
	if ex.nSamples >= 2 || len(ex.inputs) == 0 {
		return
	}
	ex.nSamples++
	// one concrete model of this completed path
	terms := make([]*smt.Term, len(ex.inputs))
	for i, iv := range ex.inputs {
		terms[i] = iv.T
	}
	res, vals, err := ex.solver.CheckModel(nil, terms)
	if err != nil || res != smt.Sat {
		ex.revive(err)
		return
	}
	m := map[string]interface{}{"harness": ex.harness, "path_decisions": len(ex.decided)}
	in := map[string]uint64{}
	for i, iv := range ex.inputs {
		in[iv.Name] = vals[i]
	}
	m["inputs"] = in
	if len(ex.notes) > 0 {
		m["notes"] = ex.notes
	}
	ex.stats.Samples = append(ex.stats.Samples, m)
}

func (ex *Exec) panicString(p *goPanic) string {
	if p.runtime != "" {
		return "runtime error: " + p.runtime
	}
	if iv, ok := p.val.(IfaceV); ok && iv.T != nil {
		if s, ok := iv.V.(StrV); ok {
			if str, ok := ex.concreteStr(s); ok {
				return str
			}
		}
		return "panic(" + iv.T.String() + ")"
	}
	return "panic"
}

// ---------- path condition, decisions ----------

func (ex *Exec) assumeTerm(t *smt.Term) {
	if t.IsTrue() {
		return
	}
	ex.pc = append(ex.pc, t)
	ex.solver.Push(t)
	ex.notePC(t, len(ex.pc))
	if ex.eval != nil {
		if v, ok := ex.eval.Eval(t); !ok || v != 1 {
			ex.eval = nil
		}
	}
}

// notePC records asserted literals so that a later branch on the very same term is decided
// without a solver call. Entries carry the pc length at which they were added.
func (ex *Exec) notePC(t *smt.Term, at int) {
	if t.Op == smt.OpAnd {
		for _, a := range t.Args {
			ex.notePC(a, at)
		}
		return
	}
	if t.Op == smt.OpNot {
		ex.pcLits[t.Args[0]] = -at
		return
	}
	ex.pcLits[t] = at
}

var noModelCache = os.Getenv("VERIF_MODELCACHE") == "" // fetching models (get-value) after every sat answer costs more than it saves

var debugLits = os.Getenv("VERIF_CHECKLITS") != ""

func litKey(t *smt.Term) *smt.Term {
	if t.Op == smt.OpNot {
		return t.Args[0]
	}
	return t
}

// pcKnows reports whether c is syntactically asserted (1), refuted (-1) or unknown (0).
func (ex *Exec) pcKnows(c *smt.Term) int {
	neg := false
	if c.Op == smt.OpNot {
		c, neg = c.Args[0], true
	}
	v, ok := ex.pcLits[c]
	if !ok {
		return 0
	}
	at := v
	if at < 0 {
		at = -at
	}
	if at > len(ex.pc) {
		delete(ex.pcLits, c) // stale: asserted inside a popped region
		return 0
	}
	r := 1
	if v < 0 {
		r = -1
	}
	if neg {
		r = -r
	}
	return r
}

// feasibleM is feasible() that also refreshes the cached model when the answer is sat.
func (ex *Exec) feasibleM(t *smt.Term) smt.Result {
	if noModelCache {
		ex.pendingEval = nil
		return ex.feasible(t)
	}
	terms := make([]*smt.Term, len(ex.inputs))
	for i, iv := range ex.inputs {
		terms[i] = iv.T
	}
	r, vals, err := ex.solver.CheckModel([]*smt.Term{t}, terms)
	if err != nil {
		if !ex.revive(err) {
			panic(&pathEnd{kind: "unknown", msg: err.Error()})
		}
		r = smt.Unknown
	}
	if r == smt.Unknown {
		r, vals = ex.fallback(t, terms)
	}
	if r == smt.Sat {
		m := make(map[*smt.Term]uint64, len(terms))
		for i, tm := range terms {
			m[tm] = vals[i]
		}
		ex.pendingEval = smt.NewEvaluator(m)
	}
	return r
}

// revive restarts the primary solver after the watchdog killed it and re-asserts the path
// condition; the query that hung is then treated as unknown (and goes to the fallback solvers).
func (ex *Exec) revive(err error) bool {
	if err == nil || !ex.solver.Dead {
		return false
	}
	ex.stats.SolverKills++
	if ex.solver.Restart() != nil {
		return false
	}
	for _, p := range ex.pc {
		ex.solver.Push(p)
	}
	return true
}

func (ex *Exec) checkTime() {
	if !ex.cfg.Deadline.IsZero() && time.Now().After(ex.cfg.Deadline) {
		panic(&pathEnd{kind: "limit", msg: "deadline"})
	}
}

func (ex *Exec) feasible(t *smt.Term) smt.Result {
	if t.IsTrue() {
		return smt.Sat
	}
	if t.IsFalse() {
		return smt.Unsat
	}
	if k := ex.pcKnows(t); k != 0 && !ex.noLits {
		ex.lastHow = "pc-literal"
		if debugLits {
			r, _ := ex.solver.Check(t)
			if (k == 1) != (r == smt.Sat) {
				fmt.Fprintf(os.Stderr, "DEBUG pcLits mismatch: know=%d solver=%v term=%d op=%d pclen=%d entry=%d guards=%d where=%s\n", k, r, t.ID, t.Op, len(ex.pc), ex.pcLits[litKey(t)], len(ex.guards), ex.where())
			}
		}
		if k == 1 {
			return smt.Sat
		}
		return smt.Unsat
	}
	ex.lastHow = "z3"
	r, err := ex.solver.Check(t)
	if err != nil {
		if !ex.revive(err) {
			panic(&pathEnd{kind: "unknown", msg: err.Error()})
		}
		r = smt.Unknown
	}
	if r == smt.Unknown {
		ex.lastHow = "fallback"
		r, _ = ex.fallback(t, nil)
	}
	return r
}

// fallback re-asks a query the primary solver gave up on (typically 64-bit multiply/divide by
// 10^9) to cvc5 with the bit-vector-as-integer translation, which keeps the mod-2^k semantics.
func (ex *Exec) fallback(t *smt.Term, want []*smt.Term) (smt.Result, []uint64) {
	if ex.cfg.NoFallback {
		return smt.Unknown, nil
	}
	tmo := ex.cfg.FallbackMs
	if tmo == 0 {
		tmo = 30000
	}
	r, vals := ex.askOther(&ex.alt, "cvc5-int", tmo, t, want)
	if r == smt.Unknown {
		// last resort: a fresh z3 with a long limit (the primary's short limit is often hit only
		// because the machine is busy)
		r, vals = ex.askOther(&ex.alt2, "z3", 4*tmo, t, want)
	}
	return r, vals
}

func (ex *Exec) askOther(slot **smt.Solver, kind string, tmo int, t *smt.Term, want []*smt.Term) (smt.Result, []uint64) {
	if *slot == nil {
		a, err := smt.NewSolver(kind, ex.ctx, tmo)
		if err != nil {
			return smt.Unknown, nil
		}
		*slot = a
	}
	alt := *slot
	if alt.Dead {
		if alt.Restart() != nil {
			return smt.Unknown, nil
		}
	}
	ex.stats.Fallbacks++
	alt.Pop(alt.Depth())
	for _, p := range ex.pc {
		alt.Push(p)
	}
	q0, t0 := alt.Queries, alt.Time
	defer func() {
		ex.stats.Queries += alt.Queries - q0
		ex.stats.FallbackTime += alt.Time - t0
	}()
	var extra []*smt.Term
	if t != nil {
		extra = []*smt.Term{t}
	}
	r, vals, err := alt.CheckModel(extra, want)
	if err != nil {
		return smt.Unknown, nil
	}
	return r, vals
}

// Branch decides a symbolic condition, forking the path when both sides are feasible.
func (ex *Exec) Branch(c *smt.Term) bool {
	if c.W != 0 {
		panic(ex.unsupported("Branch on non-bool"))
	}
	if c.IsConst() {
		return c.Val == 1
	}
	if ex.initMode > 0 {
		panic(ex.unsupported("symbolic branch inside package initialiser"))
	}
	if ex.pos < len(ex.trail) {
		v := ex.trail[ex.pos]
		ex.pos++
		ex.decided = append(ex.decided, v)
		if v == 1 {
			ex.assumeTerm(c)
			return true
		}
		ex.assumeTerm(ex.ctx.Not(c))
		return false
	}
	ex.checkTime()
	if ex.cfg.Inputs != nil {
		// replay: inputs are fixed, the condition must be decided by the solver trivially
		r := ex.feasible(c)
		ex.pos++
		if r == smt.Sat {
			ex.decided = append(ex.decided, 1)
			ex.assumeTerm(c)
			return true
		}
		ex.decided = append(ex.decided, 0)
		ex.assumeTerm(ex.ctx.Not(c))
		return false
	}
	var rt, rf smt.Result
	known := false
	if ex.eval != nil && !ex.guarded() {
		if v, ok := ex.eval.Eval(c); ok {
			known = true
			ex.stats.ModelHits++
			if v == 1 {
				rt = smt.Sat
				rf = ex.feasible(ex.ctx.Not(c))
			} else {
				rf = smt.Sat
				rt = ex.feasibleM(c)
				if rt == smt.Sat {
					ex.eval = ex.pendingEval
				}
			}
		}
	}
	if !known {
		if ex.guarded() {
			rt = ex.feasible(c)
		} else {
			rt = ex.feasibleM(c)
			if rt == smt.Sat {
				ex.eval = ex.pendingEval
			}
		}
		if rt == smt.Unsat {
			rf = smt.Sat // pc is satisfiable by construction
		} else {
			rf = ex.feasible(ex.ctx.Not(c))
		}
	}
	if rt == smt.Unknown || rf == smt.Unknown {
		ex.stats.SolverUnknown++
		// keep both (sound for violation finding; path counted as unknown if it matters)
		rt, rf = smt.Sat, smt.Sat
	}
	if rt == smt.Sat && rf == smt.Sat {
		ex.noGuard("two-sided branch inside merge region")
	}
	ex.pos++
	switch {
	case rt == smt.Sat && rf == smt.Sat:
		alt := append(append([]uint64(nil), ex.decided...), 0)
		ex.pending = append(ex.pending, alt)
		ex.decided = append(ex.decided, 1)
		ex.assumeTerm(c)
		return true
	case rt == smt.Sat:
		ex.decided = append(ex.decided, 1)
		ex.assumeTerm(c)
		return true
	case rf == smt.Sat:
		ex.decided = append(ex.decided, 0)
		ex.assumeTerm(ex.ctx.Not(c))
		return false
	}
	panic(&pathEnd{kind: "infeasible", msg: "both sides infeasible"})
}

// Concretize forks on every feasible value of t (up to max) and returns the chosen one.
func (ex *Exec) Concretize(t *smt.Term, max int) uint64 {
	if t.IsConst() {
		return t.Val
	}
	if ex.initMode > 0 {
		panic(ex.unsupported("symbolic concretisation inside package initialiser"))
	}
	if ex.pos < len(ex.trail) {
		v := ex.trail[ex.pos]
		ex.pos++
		ex.decided = append(ex.decided, v)
		ex.assumeTerm(ex.ctx.Eq(t, ex.constLike(t, v)))
		return v
	}
	ex.checkTime()
	ex.noGuard("concretisation inside merge region")
	var vals []uint64
	var excl []*smt.Term
	for {
		res, mv, err := ex.solver.CheckModel(excl, []*smt.Term{t})
		if err != nil {
			ex.revive(err)
			panic(&pathEnd{kind: "unknown", msg: err.Error()})
		}
		if res == smt.Unknown {
			panic(&pathEnd{kind: "unknown", msg: "concretize"})
		}
		if res == smt.Unsat {
			break
		}
		vals = append(vals, mv[0])
		excl = append(excl, ex.ctx.Ne(t, ex.constLike(t, mv[0])))
		if len(vals) > max {
			panic(ex.unsupported("concretize: more than %d feasible values", max))
		}
		if ex.cfg.Inputs != nil {
			break
		}
	}
	if len(vals) == 0 {
		panic(&pathEnd{kind: "infeasible", msg: "concretize: none"})
	}
	sort.Slice(vals, func(i, j int) bool { return vals[i] < vals[j] })
	ex.pos++
	for _, v := range vals[1:] {
		alt := append(append([]uint64(nil), ex.decided...), v)
		ex.pending = append(ex.pending, alt)
	}
	ex.decided = append(ex.decided, vals[0])
	ex.assumeTerm(ex.ctx.Eq(t, ex.constLike(t, vals[0])))
	return vals[0]
}

func (ex *Exec) constLike(t *smt.Term, v uint64) *smt.Term {
	if t.W == 0 {
		return ex.ctx.Bool(v != 0)
	}
	return ex.ctx.BV(t.W, v)
}

// Choose forks over n alternatives unconditionally (nondeterministic choice).
func (ex *Exec) Choose(n int) int {
	if n <= 1 {
		return 0
	}
	if ex.pos < len(ex.trail) {
		v := ex.trail[ex.pos]
		ex.pos++
		ex.decided = append(ex.decided, v)
		return int(v)
	}
	ex.noGuard("nondeterministic choice inside merge region")
	ex.pos++
	for i := 1; i < n; i++ {
		alt := append(append([]uint64(nil), ex.decided...), uint64(i))
		ex.pending = append(ex.pending, alt)
	}
	ex.decided = append(ex.decided, 0)
	return 0
}

// ---------- obligations ----------

func (ex *Exec) obligation(name, site string) *Obligation {
	k := ex.harness + "/" + name
	o := ex.stats.Obligations[k]
	if o == nil {
		o = &Obligation{Name: k, Site: site}
		ex.stats.Obligations[k] = o
	}
	return o
}

func (ex *Exec) Assert(name string, cond *smt.Term) {
	site := ex.where()
	o := ex.obligation(name, site)
	if len(ex.guards) > 0 {
		cond = ex.ctx.Implies(ex.totalGuard(), cond)
	}
	if cond.IsTrue() {
		o.Trivial++
		o.Discharged++
		return
	}
	// obligations are always decided by the solver: inside a merge arm the path condition plus
	// guard may be unsatisfiable, and the syntactic literal cache must not be trusted there
	ex.noLits = true
	r := ex.feasible(ex.ctx.Not(cond))
	ex.noLits = false
	switch r {
	case smt.Unsat:
		o.Discharged++
	case smt.Unknown:
		o.Unknown++
		ex.stats.SolverUnknown++
	case smt.Sat:
		o.Violated++
		ex.pc = append(ex.pc, ex.ctx.Not(cond))
		ex.solver.Push(ex.ctx.Not(cond))
		ex.recordViolation("assert", name, site, "")
		panic(&pathEnd{kind: "violation", msg: name})
	}
}

func (ex *Exec) recordViolation(kind, name, site, msg string) {
	v := &Violation{Harness: ex.harness, Name: name, Site: site, Kind: kind, Msg: msg,
		Inputs: map[string]uint64{}, Trail: append([]uint64(nil), ex.decided...), Notes: append([]string(nil), ex.notes...)}
	terms := make([]*smt.Term, len(ex.inputs))
	for i, iv := range ex.inputs {
		terms[i] = iv.T
	}
	// uninterpreted-function applications with symbolic arguments: their value and the
	// arguments' values are read from the model and recorded as "name(args)" inputs
	for _, u := range ex.ufApps {
		terms = append(terms, u.app)
		terms = append(terms, u.args...)
	}
	nBase := len(terms)
	for _, tr := range ex.traces {
		terms = append(terms, tr.t)
	}
	res, vals, err := ex.solver.CheckModel(nil, terms)
	if ex.revive(err) {
		err, res = nil, smt.Unknown
	}
	if err == nil && res == smt.Unknown {
		res, vals = ex.fallback(nil, terms)
	}
	if err == nil && res == smt.Sat {
		for i, iv := range ex.inputs {
			v.Inputs[iv.Name] = vals[i]
		}
		k := len(ex.inputs)
		for _, u := range ex.ufApps {
			appVal := vals[k]
			argVals := vals[k+1 : k+1+len(u.args)]
			v.Inputs[ufAppName(u.name, u.args, argVals)] = appVal
			k += 1 + len(u.args)
		}
		for i, tr := range ex.traces {
			v.Notes = append(v.Notes, fmt.Sprintf("trace %s = %d", tr.name, vals[nBase+i]))
		}
	} else {
		v.Msg += fmt.Sprintf(" (model unavailable: %v %v; verdict came from %s)", res, err, ex.lastHow)
	}
	if ex.cfg.Inputs != nil {
		for k, val := range ex.cfg.Inputs {
			v.Inputs[k] = val
		}
	}
	ex.stats.Violations = append(ex.stats.Violations, v)
}

// ---------- inputs ----------

func (ex *Exec) input(name string, w int) *smt.Term {
	if t, ok := ex.inputSet[name]; ok {
		if t.W != w && !(t.IsConst()) {
			panic(ex.unsupported("input %q redeclared with another width", name))
		}
		return t
	}
	ex.noGuard("new input")
	var t *smt.Term
	if fv, ok := ex.cfg.Fixed[name]; ok {
		if w == 0 {
			t = ex.ctx.Bool(fv != 0)
		} else {
			t = ex.ctx.BV(w, fv)
		}
		ex.inputSet[name] = t
		return t
	}
	if ex.cfg.Inputs != nil {
		v := ex.cfg.Inputs[name]
		if w == 0 {
			t = ex.ctx.Bool(v != 0)
		} else {
			t = ex.ctx.BV(w, v)
		}
	} else {
		t = ex.ctx.Var(name, w)
		ex.inputs = append(ex.inputs, inputVar{name, t})
	}
	ex.inputSet[name] = t
	return t
}

// ---------- globals, init, undo ----------

func (ex *Exec) rollback() {
	for i := len(ex.undo) - 1; i >= 0; i-- {
		u := ex.undo[i]
		switch u.kind {
		case 0:
			u.c.V = u.v
		case 1:
			u.c.Kids[u.kidI] = nil
		case 2:
			u.m.Entries = make([]*mapEntry, len(u.ents))
			for j := range u.ents {
				e := u.ents[j]
				u.m.Entries[j] = &e
			}
		}
	}
	ex.undo = ex.undo[:0]
}

func (ex *Exec) global(g *ssa.Global) *Cell {
	if c, ok := ex.globals[g]; ok {
		return c
	}
	ex.ensureInit(g.Pkg)
	if c, ok := ex.globals[g]; ok {
		return c
	}
	c := ex.newCellBase(g.Type().(*types.Pointer).Elem())
	ex.globals[g] = c
	return c
}

func (ex *Exec) newCellBase(t types.Type) *Cell {
	ex.initMode++
	c := ex.newCell(t)
	ex.initMode--
	return c
}

func (ex *Exec) ensureInit(p *ssa.Package) {
	if p == nil || ex.inited[p] {
		return
	}
	ex.inited[p] = true
	// allocate all globals of the package first
	for _, m := range p.Members {
		if g, ok := m.(*ssa.Global); ok {
			if _, ok := ex.globals[g]; !ok {
				ex.globals[g] = ex.newCellBase(g.Type().(*types.Pointer).Elem())
			}
		}
	}
	if skipInit(p.Pkg.Path()) {
		return
	}
	initFn := p.Func("init")
	if initFn == nil {
		return
	}
	// run with saved path state
	// initialisers are independent of the path: run them outside any merge guard
	saveStack, saveTarget, saveGuards, savePanics := ex.stack, ex.initTarget, ex.guards, ex.panics
	ex.stack = nil
	ex.guards = nil
	ex.panics = nil
	ex.initTarget = p
	ex.initMode++
	// ghost state (atomic.Value contents, Once flags, ...) written by an initialiser belongs to every
	// later path of this worker, not only to the path that happened to trigger the initialiser
	before := make(map[string]interface{}, len(ex.ghost))
	for k, v := range ex.ghost {
		before[k] = v
	}
	defer func() {
		if ex.initMode == 1 {
			if ex.baseGhost == nil {
				ex.baseGhost = map[string]interface{}{}
			}
			for k, v := range ex.ghost {
				if old, ok := before[k]; !ok || !ghostSame(old, v) {
					ex.baseGhost[k] = v
				}
			}
		}
		ex.initMode--
		ex.stack = saveStack
		ex.initTarget = saveTarget
		ex.guards = saveGuards
		ex.panics = savePanics
	}()
	ex.call(ex.funcValue(initFn), nil)
}

func (ex *Exec) funcValue(fn *ssa.Function) *FuncV {
	if fv, ok := ex.funcVals[fn]; ok {
		return fv
	}
	fv := &FuncV{Fn: fn}
	ex.funcVals[fn] = fv
	return fv
}

func (ex *Exec) info(fn *ssa.Function) *fnInfo {
	if fi, ok := ex.fnInfos[fn]; ok {
		return fi
	}
	fi := &fnInfo{index: map[ssa.Value]int{}}
	n := 0
	for _, p := range fn.Params {
		fi.index[p] = n
		n++
	}
	for _, b := range fn.Blocks {
		for _, in := range b.Instrs {
			if v, ok := in.(ssa.Value); ok {
				fi.index[v] = n
				n++
			}
		}
	}
	fi.n = n
	for i, fv := range fn.FreeVars {
		fi.index[fv] = n + i
	}
	ex.fnInfos[fn] = fi
	return fi
}

func ghostSame(a, b interface{}) (same bool) {
	defer func() {
		if recover() != nil {
			same = false
		}
	}()
	return a == b
}
