package gosym

import (
	"go/token"
	"go/types"
	"math"
	"unicode/utf8"

	"verif/engine/smt"
)

func (ex *Exec) binop(op token.Token, a, b Value, ta, tb types.Type) Value {
	c := ex.ctx
	switch op {
	case token.EQL:
		return ex.eq(a, b, ta)
	case token.NEQ:
		return c.Not(ex.eq(a, b, ta))
	}
	switch x := a.(type) {
	case *smt.Term:
		y, ok := b.(*smt.Term)
		if !ok {
			break
		}
		signed := isSigned(ta)
		switch op {
		case token.ADD:
			return c.Add(x, y)
		case token.SUB:
			return c.Sub(x, y)
		case token.MUL:
			return c.Mul(x, y)
		case token.QUO, token.REM:
			if !ex.Branch(c.Ne(y, c.BV(y.W, 0))) {
				panic(ex.rtPanic("integer divide by zero"))
			}
			if op == token.QUO {
				if signed {
					return c.SDiv(x, y)
				}
				return c.UDiv(x, y)
			}
			if signed {
				return c.SRem(x, y)
			}
			return c.URem(x, y)
		case token.AND:
			if x.W == 0 {
				return c.And(x, y)
			}
			return c.BAnd(x, y)
		case token.OR:
			if x.W == 0 {
				return c.Or(x, y)
			}
			return c.BOr(x, y)
		case token.XOR:
			return c.BXor(x, y)
		case token.AND_NOT:
			return c.BAnd(x, c.BNot(y))
		case token.SHL, token.SHR:
			return ex.shift(op, x, y, signed, isSigned(tb))
		case token.LSS:
			if signed {
				return c.SLT(x, y)
			}
			return c.ULT(x, y)
		case token.LEQ:
			if signed {
				return c.SLE(x, y)
			}
			return c.ULE(x, y)
		case token.GTR:
			if signed {
				return c.SLT(y, x)
			}
			return c.ULT(y, x)
		case token.GEQ:
			if signed {
				return c.SLE(y, x)
			}
			return c.ULE(y, x)
		}
	case FloatV:
		y, ok := b.(FloatV)
		if !ok {
			break
		}
		var r float64
		switch op {
		case token.ADD:
			r = float64(x) + float64(y)
		case token.SUB:
			r = float64(x) - float64(y)
		case token.MUL:
			r = float64(x) * float64(y)
		case token.QUO:
			r = float64(x) / float64(y)
		case token.LSS:
			return c.Bool(x < y)
		case token.LEQ:
			return c.Bool(x <= y)
		case token.GTR:
			return c.Bool(x > y)
		case token.GEQ:
			return c.Bool(x >= y)
		default:
			panic(ex.unsupported("float binop %s", op))
		}
		if b, ok := ta.Underlying().(*types.Basic); ok && b.Kind() == types.Float32 {
			r = float64(float32(r))
		}
		return FloatV(r)
	case StrV:
		y, ok := b.(StrV)
		if !ok {
			break
		}
		switch op {
		case token.ADD:
			r := make([]*smt.Term, 0, len(x.B)+len(y.B))
			r = append(r, x.B...)
			r = append(r, y.B...)
			return StrV{B: r}
		case token.LSS:
			return ex.strLess(x, y, false)
		case token.LEQ:
			return ex.strLess(x, y, true)
		case token.GTR:
			return ex.strLess(y, x, false)
		case token.GEQ:
			return ex.strLess(y, x, true)
		}
	}
	panic(ex.unsupported("binop %s on %T,%T", op, a, b))
}

func (ex *Exec) shift(op token.Token, x, y *smt.Term, signed, ySigned bool) *smt.Term {
	c := ex.ctx
	if ySigned {
		if !ex.Branch(c.SLE(c.BV(y.W, 0), y)) {
			panic(ex.rtPanic("negative shift amount"))
		}
	}
	w := x.W
	// bring the count to x's width, saturating
	var cnt *smt.Term
	var big *smt.Term // count >= w
	if y.W > w {
		big = c.ULE(c.BV(y.W, uint64(w)), y)
		cnt = c.Extract(y, w-1, 0)
	} else {
		cnt = c.ZExt(y, w)
		big = c.ULE(c.BV(w, uint64(w)), cnt)
	}
	switch op {
	case token.SHL:
		return c.Ite(big, c.BV(w, 0), c.Shl(x, cnt))
	case token.SHR:
		if signed {
			return c.Ite(big, c.AShr(x, c.BV(w, uint64(w-1))), c.AShr(x, cnt))
		}
		return c.Ite(big, c.BV(w, 0), c.LShr(x, cnt))
	}
	panic("shift")
}

func (ex *Exec) strLess(a, b StrV, orEq bool) *smt.Term {
	c := ex.ctx
	// lexicographic, from the end backwards
	n := len(a.B)
	if len(b.B) < n {
		n = len(b.B)
	}
	var res *smt.Term
	if len(a.B) < len(b.B) {
		res = c.True
	} else if len(a.B) == len(b.B) {
		res = c.Bool(orEq)
	} else {
		res = c.False
	}
	for i := n - 1; i >= 0; i-- {
		res = c.Ite(c.ULT(a.B[i], b.B[i]), c.True, c.Ite(c.ULT(b.B[i], a.B[i]), c.False, res))
	}
	return res
}

func (ex *Exec) strEq(a, b StrV) *smt.Term {
	if len(a.B) != len(b.B) {
		return ex.ctx.False
	}
	cs := make([]*smt.Term, 0, len(a.B))
	for i := range a.B {
		e := ex.ctx.Eq(a.B[i], b.B[i])
		if e.IsFalse() {
			return e
		}
		cs = append(cs, e)
	}
	return ex.ctx.And(cs...)
}

// eq is Go's == on two values of static type t.
func (ex *Exec) eq(a, b Value, t types.Type) *smt.Term {
	c := ex.ctx
	switch x := a.(type) {
	case *smt.Term:
		return c.Eq(x, b.(*smt.Term))
	case FloatV:
		return c.Bool(x == b.(FloatV))
	case ComplexV:
		return c.Bool(x == b.(ComplexV))
	case StrV:
		return ex.strEq(x, b.(StrV))
	case PtrV:
		y := b.(PtrV)
		if x.C == nil || y.C == nil {
			return c.Bool(x.C == nil && y.C == nil)
		}
		if x.Idx == nil && y.Idx == nil {
			return c.Bool(x.C == y.C)
		}
		if x.C == y.C && x.Idx != nil && y.Idx != nil {
			return c.Eq(x.Idx, y.Idx)
		}
		xc, yc := ex.ptrCell(x), ex.ptrCell(y)
		return c.Bool(xc == yc)
	case SliceV:
		y := b.(SliceV)
		if x.Arr != nil && y.Arr != nil {
			panic(ex.unsupported("slice == slice"))
		}
		return c.Bool(x.Arr == nil && y.Arr == nil)
	case *MapObj:
		y, _ := b.(*MapObj)
		return c.Bool(x == y)
	case *ChanObj:
		y, _ := b.(*ChanObj)
		return c.Bool(x == y)
	case *FuncV:
		y, _ := b.(*FuncV)
		return c.Bool(x == y)
	case IfaceV:
		y, ok := b.(IfaceV)
		if !ok {
			panic(ex.unsupported("iface == %T", b))
		}
		if x.T == nil || y.T == nil {
			return c.Bool(x.T == nil && y.T == nil)
		}
		if !types.Identical(x.T, y.T) {
			return c.False
		}
		if !types.Comparable(x.T) {
			panic(&goPanic{runtime: "comparing uncomparable type " + x.T.String(), where: ex.where(),
				val: IfaceV{T: types.Typ[types.String], V: ex.mkStr("comparing uncomparable")}})
		}
		return ex.eq(x.V, y.V, x.T)
	case AggV:
		y := b.(AggV)
		if len(x) != len(y) {
			return c.False
		}
		var cs []*smt.Term
		for i := range x {
			var et types.Type
			switch u := t.Underlying().(type) {
			case *types.Struct:
				et = u.Field(i).Type()
			case *types.Array:
				et = u.Elem()
			}
			e := ex.eq(x[i], y[i], et)
			if e.IsFalse() {
				return e
			}
			cs = append(cs, e)
		}
		return c.And(cs...)
	case nil:
		return c.Bool(b == nil)
	}
	panic(ex.unsupported("== on %T", a))
}

// ---------- conversions ----------

func (ex *Exec) convert(v Value, from, to types.Type) Value {
	c := ex.ctx
	fu, tu := from.Underlying(), to.Underlying()
	switch x := v.(type) {
	case *smt.Term:
		switch {
		case isInteger(to) && x.W > 0:
			return c.Resize(x, ex.widthOf(to), isSigned(from))
		case isFloat(to) && x.W > 0:
			if !x.IsConst() {
				panic(ex.unsupported("symbolic int -> float conversion"))
			}
			var f float64
			if isSigned(from) {
				f = float64(x.SVal())
			} else {
				f = float64(x.Val)
			}
			if tu.(*types.Basic).Kind() == types.Float32 {
				f = float64(float32(f))
			}
			return FloatV(f)
		case isString(to) && x.W > 0:
			// string(rune)
			if !x.IsConst() {
				// ASCII fast path under a decision
				if ex.Branch(c.ULT(c.Resize(x, 64, isSigned(from)), c.BV(64, 0x80))) {
					return StrV{B: []*smt.Term{c.Resize(x, 8, false)}}
				}
				r := rune(ex.Concretize(x, 64))
				return ex.mkStr(string(r))
			}
			var r rune
			if isSigned(from) {
				sv := x.SVal()
				if sv < 0 || sv > math.MaxInt32 {
					r = utf8.RuneError
				} else {
					r = rune(sv)
				}
			} else if x.Val > math.MaxInt32 {
				r = utf8.RuneError
			} else {
				r = rune(x.Val)
			}
			return ex.mkStr(string(r))
		case isBoolean(to):
			return x
		}
		if b, ok := tu.(*types.Basic); ok && b.Kind() == types.UnsafePointer {
			if x.IsConst() && x.Val == 0 {
				return PtrV{}
			}
			panic(ex.unsupported("uintptr -> unsafe.Pointer"))
		}
	case FloatV:
		switch {
		case isFloat(to):
			if tu.(*types.Basic).Kind() == types.Float32 {
				return FloatV(float64(float32(x)))
			}
			return x
		case isInteger(to):
			w := ex.widthOf(to)
			if isSigned(to) {
				return c.BV(w, uint64(int64(x)))
			}
			return c.BV(w, uint64(x))
		}
	case StrV:
		switch t := tu.(type) {
		case *types.Basic:
			if isString(to) {
				return x
			}
		case *types.Slice:
			eb, _ := t.Elem().Underlying().(*types.Basic)
			if eb != nil && eb.Kind() == types.Uint8 {
				arr := ex.newArrayCell(t.Elem(), len(x.B))
				for i, bt := range x.B {
					if !(bt.IsConst() && bt.Val == 0) {
						ex.kid(arr, i).V = bt
					}
				}
				n := ex.intConst(int64(len(x.B)))
				return SliceV{Arr: arr, Off: ex.intConst(0), Len: n, Cap: n}
			}
			if eb != nil && eb.Kind() == types.Int32 {
				s, ok := ex.concreteStr(x)
				if !ok {
					s = ex.asciiOrConcretize(x)
				}
				rs := []rune(s)
				arr := ex.newArrayCell(t.Elem(), len(rs))
				for i, r := range rs {
					ex.kid(arr, i).V = c.BV(32, uint64(r))
				}
				n := ex.intConst(int64(len(rs)))
				return SliceV{Arr: arr, Off: ex.intConst(0), Len: n, Cap: n}
			}
		}
	case SliceV:
		if isString(to) {
			st := fu.(*types.Slice)
			eb := st.Elem().Underlying().(*types.Basic)
			n := 0
			if x.Arr != nil {
				n = int(ex.Concretize(x.Len, 256))
			}
			if eb.Kind() == types.Uint8 {
				out := make([]*smt.Term, n)
				for i := 0; i < n; i++ {
					out[i] = ex.sliceElem(x, i).(*smt.Term)
				}
				return StrV{B: out}
			}
			// []rune -> string
			rs := make([]rune, n)
			for i := 0; i < n; i++ {
				rs[i] = rune(ex.Concretize(ex.sliceElem(x, i).(*smt.Term), 64))
			}
			return ex.mkStr(string(rs))
		}
		if _, ok := tu.(*types.Slice); ok {
			return x
		}
		if _, ok := tu.(*types.Array); ok { // slice -> array (go1.20)
			n := int(tu.(*types.Array).Len())
			ln := int(ex.Concretize(x.Len, 256))
			if ln < n {
				panic(ex.rtPanic("cannot convert slice to array: too short"))
			}
			a := make(AggV, n)
			for i := range a {
				a[i] = ex.sliceElem(x, i)
			}
			return a
		}
		if _, ok := tu.(*types.Pointer); ok { // slice -> *array
			n := int(tu.(*types.Pointer).Elem().Underlying().(*types.Array).Len())
			off := int(ex.Concretize(x.Off, 256))
			return PtrV{C: ex.subArray(x.Arr, off, n, tu.(*types.Pointer).Elem())}
		}
	case PtrV:
		return x // pointer <-> unsafe.Pointer, named pointer types
	case AggV, *MapObj, *ChanObj, *FuncV, IfaceV:
		return v
	case nil:
		return ex.zero(to)
	}
	panic(ex.unsupported("convert %s -> %s (%T)", from, to, v))
}

func (ex *Exec) asciiOrConcretize(x StrV) string {
	buf := make([]byte, len(x.B))
	for i, bt := range x.B {
		if bt.IsConst() {
			buf[i] = byte(bt.Val)
			continue
		}
		if ex.Branch(ex.ctx.ULT(bt, ex.ctx.BV(8, 0x80))) {
			// keep symbolic is impossible for runes here; concretise
			buf[i] = byte(ex.Concretize(bt, 256))
		} else {
			buf[i] = byte(ex.Concretize(bt, 256))
		}
	}
	return string(buf)
}

// sliceElem loads element i (concrete, relative) of a slice.
func (ex *Exec) sliceElem(s SliceV, i int) Value {
	if s.Off.IsConst() {
		return ex.load(ex.kid(s.Arr, int(s.Off.Val)+i))
	}
	return ex.loadIdx(s.Arr, ex.ctx.Add(s.Off, ex.intConst(int64(i))), 0, 0)
}

func (ex *Exec) sliceElemPtr(s SliceV, i int) PtrV {
	if s.Off.IsConst() {
		return PtrV{C: ex.kid(s.Arr, int(s.Off.Val)+i)}
	}
	return PtrV{C: s.Arr, Idx: ex.ctx.Add(s.Off, ex.intConst(int64(i)))}
}
