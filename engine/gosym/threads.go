package gosym

import (
	"fmt"
	"go/types"
	"os"

	"golang.org/x/tools/go/ssa"
)

var debugSched = os.Getenv("VERIF_DEBUG_SCHED") != ""

// Goroutines of the program under analysis run as cooperative threads: each has its own
// interpreter call stack and runs on its own host goroutine, but only one runs at a time (hand-off
// through channels), so the executor state needs no locking. A thread gives up control when it
// blocks (channel operation, mutex, WaitGroup, select) or - in schedule-exploring mode - at a
// preemption point (sync/atomic, sync.Map, mutex and channel operations, vs.Yield) while the
// preemption budget lasts. Which runnable thread continues is then a decision on the trail
// (Choose), so the path exploration enumerates the schedules within the bound.
//
// Default mode (no vs.Schedules call) keeps the earlier deterministic behaviour: spawned
// goroutines start when the spawning thread blocks, run in spawn order, each until it blocks or ends.

type thread struct {
	id      int
	fv      *FuncV
	args    []Value
	resume  chan bool
	yield   chan thrEvt
	stack   []*frame
	panics  []*frame
	started bool
	ready   func() bool // nil: runnable; otherwise parked until it reports true
	what    string
}

type thrEvt struct {
	kind int // 0 finished, 1 yielded (blocked or preempted), 2 panicked, 3 killed
	r    interface{}
}

type threadKill struct{}

func (ex *Exec) spawn(fv *FuncV, args []Value) {
	if ex.initMode > 0 {
		// background goroutines started by package initialisers (janitors of package-level pools)
		// are not run: initialisers execute once per worker, not once per path
		return
	}
	ex.thrSeq++
	ex.threads = append(ex.threads, &thread{id: ex.thrSeq, fv: fv, args: args})
}

func (t *thread) main(ex *Exec) {
	defer func() {
		r := recover()
		switch r.(type) {
		case nil:
			t.yield <- thrEvt{kind: 0}
		case threadKill:
			t.yield <- thrEvt{kind: 3}
		default:
			t.yield <- thrEvt{kind: 2, r: r}
		}
	}()
	if !<-t.resume {
		panic(threadKill{})
	}
	ex.call(t.fv, t.args)
	ex.stack = ex.stack[:0]
}

// switchTo runs thread t until it finishes, yields or panics. Called on the main (driver) context only.
func (ex *Exec) switchTo(t *thread) {
	savedStack, savedPanics := ex.stack, ex.panics
	ex.stack, ex.panics = t.stack, t.panics
	ex.cur = t
	if !t.started {
		t.started = true
		t.resume = make(chan bool)
		t.yield = make(chan thrEvt)
		go t.main(ex)
	}
	if ex.explore {
		ex.notes = append(ex.notes, "schedule: run goroutine #"+itoa(t.id))
	}
	t.resume <- true
	ev := <-t.yield
	if ex.explore && ev.kind == 1 {
		why := "preempted"
		if t.ready != nil {
			why = "blocked"
		}
		ex.notes = append(ex.notes, "schedule: goroutine #"+itoa(t.id)+" "+why+" at "+ex.whereShort())
	}
	t.stack, t.panics = ex.stack, ex.panics
	ex.stack, ex.panics = savedStack, savedPanics
	ex.cur = nil
	switch ev.kind {
	case 0:
		ex.dropThread(t)
	case 2:
		ex.dropThread(t)
		panic(ev.r)
	}
}

func (ex *Exec) dropThread(t *thread) {
	for i, x := range ex.threads {
		if x == t {
			ex.threads = append(ex.threads[:i:i], ex.threads[i+1:]...)
			return
		}
	}
}

// killThreads unwinds every parked thread at the end of a path.
func (ex *Exec) killThreads() {
	for _, t := range ex.threads {
		if !t.started {
			continue
		}
		ex.stack, ex.panics = t.stack, t.panics
		t.resume <- false
		<-t.yield
	}
	ex.threads = nil
	ex.cur = nil
}

func (ex *Exec) runnable() []*thread {
	var r []*thread
	for _, t := range ex.threads {
		if t.ready == nil || t.ready() {
			r = append(r, t)
		}
	}
	return r
}

// yieldThread parks the current thread until ready (nil: merely preempted) and the scheduler
// picks it again.
func (ex *Exec) yieldThread(ready func() bool) {
	t := ex.cur
	t.ready = ready
	t.yield <- thrEvt{kind: 1}
	if !<-t.resume {
		panic(threadKill{})
	}
	t.ready = nil
}

// block waits until ready() holds, letting other threads run meanwhile.
func (ex *Exec) block(ready func() bool, what string) {
	ex.noGuard("blocking operation")
	for !ready() {
		if ex.cur != nil {
			ex.yieldThread(ready)
			continue
		}
		if !ex.schedule(ready) {
			panic(ex.unsupported("%s would block forever (no runnable goroutine can make it ready)", what))
		}
	}
}

// schedule is the driver loop on the main context: it runs runnable threads until none is left or,
// when exploring schedules, until it decides to continue main (only offered when mainReady holds).
// It reports whether any thread ran.
func (ex *Exec) schedule(mainReady func() bool) bool {
	if ex.cur != nil {
		return false
	}
	ran := false
	for {
		r := ex.runnable()
		if len(r) == 0 {
			return ran
		}
		pick := 0
		if ex.explore {
			n := len(r)
			mainOK := mainReady != nil && mainReady()
			if mainOK {
				n++
			}
			if n > 1 {
				pick = ex.chooseSched(n)
			}
			if pick == len(r) {
				return true // continue main
			}
		}
		ex.switchTo(r[pick])
		ran = true
	}
}

// runGoroutines lets every runnable goroutine run (until all are finished or parked).
func (ex *Exec) runGoroutines() {
	if ex.cur != nil {
		return
	}
	ex.noGuard("scheduling point")
	always := func() bool { return true }
	ex.schedule(always)
}

// preemptPoint is called before operations that synchronise between goroutines. In exploring mode,
// while the preemption budget lasts and another thread could run, the current thread may be
// switched out here.
func (ex *Exec) preemptPoint() {
	if !ex.explore || ex.preemptLeft <= 0 || ex.initMode > 0 {
		return
	}
	// never inside a merged region: the decision numbering must not depend on whether a branch was
	// merged (symbolic run) or concrete (replay)
	ex.noGuard("preemption point")
	others := 0
	for _, t := range ex.runnable() {
		if t != ex.cur {
			others++
		}
	}
	if others == 0 {
		return
	}
	if ex.chooseSched(2) == 0 {
		return
	}
	ex.preemptLeft--
	if ex.cur != nil {
		ex.yieldThread(nil)
		return
	}
	// main preempted: run others; the scheduler decides when main continues
	ex.schedule(func() bool { return true })
}

func (ex *Exec) whereShort() string {
	w := ex.where()
	if i := indexStr(w, " <- "); i >= 0 {
		j := indexStr(w[i+4:], " <- ")
		if j >= 0 {
			return w[:i+4+j]
		}
	}
	return w
}

func indexStr(s, sub string) int {
	for i := 0; i+len(sub) <= len(s); i++ {
		if s[i:i+len(sub)] == sub {
			return i
		}
	}
	return -1
}

// chooseSched makes one scheduling decision. The decision is a symbolic input ("sched#k", constrained
// to the number of options) that the solver enumerates, so a counterexample's model carries the
// schedule and a replay file pins it.
func (ex *Exec) chooseSched(n int) int {
	ex.schedSeq++
	ex.stats.SchedDecisions++
	v := ex.input("sched#"+itoa(ex.schedSeq), 8)
	var k int
	if v.IsConst() {
		// replay: the decision is pinned by the replay file
		k = int(v.Val)
		if k >= n {
			k = n - 1
		}
	} else {
		// a fresh variable whose only constraint is v < n: every value 0..n-1 is feasible by
		// construction, so the alternatives are forked without asking the solver to enumerate
		// them; each branch asserts v == k, so the path condition (and any counterexample's
		// model) carries the schedule
		k = ex.Choose(n)
		ex.assumeTerm(ex.ctx.Eq(v, ex.ctx.BV(8, uint64(k))))
	}
	if debugSched {
		fmt.Fprintf(os.Stderr, "SCHED #%d n=%d -> %d const=%v at %s\n", ex.schedSeq, n, k, v.IsConst(), ex.whereShort())
	}
	return k
}
func (ex *Exec) lookupMethodByName(t types.Type, name string) *ssa.Function {
	ms := ex.prog.MethodSets.MethodSet(t)
	for i := 0; i < ms.Len(); i++ {
		if ms.At(i).Obj().Name() == name {
			if fn := ex.prog.MethodValue(ms.At(i)); fn != nil {
				return fn
			}
		}
	}
	panic(ex.unsupported("method %s not found on %s", name, t))
}
