package gosym

import (
	"fmt"
	"go/constant"
	"go/token"
	"go/types"
	"strings"

	"golang.org/x/tools/go/ssa"
	"verif/engine/smt"
)

func (ex *Exec) rtPanic(msg string) *goPanic {
	return &goPanic{runtime: msg, where: ex.where(),
		val: IfaceV{T: types.Typ[types.String], V: ex.mkStr("runtime error: " + msg)}}
}

func (ex *Exec) constVal(c *ssa.Const) Value {
	t := c.Type()
	if c.Value == nil {
		return ex.zero(t)
	}
	switch u := t.Underlying().(type) {
	case *types.Basic:
		switch {
		case u.Info()&types.IsBoolean != 0:
			return ex.ctx.Bool(constant.BoolVal(c.Value))
		case u.Info()&types.IsInteger != 0:
			w := ex.widthOf(t)
			if isSigned(t) {
				return ex.ctx.BV(w, uint64(c.Int64()))
			}
			return ex.ctx.BV(w, c.Uint64())
		case u.Info()&types.IsFloat != 0:
			return FloatV(c.Float64())
		case u.Info()&types.IsComplex != 0:
			return ComplexV(c.Complex128())
		case u.Info()&types.IsString != 0:
			return ex.mkStr(constant.StringVal(c.Value))
		}
	case *types.TypeParam:
		panic(ex.unsupported("const of type param"))
	}
	panic(ex.unsupported("const %s of type %s", c, t))
}

func (ex *Exec) get(fr *frame, v ssa.Value) Value {
	switch x := v.(type) {
	case *ssa.Const:
		return ex.constVal(x)
	case *ssa.Global:
		return PtrV{C: ex.global(x)}
	case *ssa.Function:
		return ex.funcValue(x)
	case *ssa.Builtin:
		return &FuncV{Builtin: x.Name()}
	}
	i, ok := fr.info.index[v]
	if !ok {
		panic(ex.unsupported("operand %s (%T) not in frame of %s", v.Name(), v, fr.fn))
	}
	return fr.vals[i]
}

func (ex *Exec) set(fr *frame, v ssa.Value, val Value) {
	fr.vals[fr.info.index[v]] = val
}

// ---------- calls ----------

func (ex *Exec) stubKind(name string) (string, bool) {
	if k, ok := ex.cfg.Stubs[name]; ok {
		return k, true
	}
	for pat, k := range ex.cfg.Stubs {
		if strings.HasSuffix(pat, "*") && strings.HasPrefix(name, pat[:len(pat)-1]) {
			return k, true
		}
	}
	return defaultStub(name)
}

func (ex *Exec) call(fv *FuncV, args []Value) Value {
	if fv == nil {
		panic(ex.rtPanic("invalid memory address or nil pointer dereference (nil func call)"))
	}
	if fv.Builtin != "" {
		return ex.callNative(fv, args)
	}
	fn := fv.Fn
	name := fn.String()
	if fn.Origin() != nil {
		name = fn.Origin().String()
	}
	if fn.Synthetic == "package initializer" && fn.Pkg != ex.initTarget {
		return nil // dependencies are initialised lazily, on first touch of one of their globals
	}
	if r, ok := ex.replaced[name]; ok && r != fv {
		return ex.call(r, args)
	}
	if h, ok := ex.intr[name]; ok {
		return h(ex, fn, args)
	}
	if k, ok := ex.stubKind(name); ok {
		ex.stats.Stubbed[name]++
		return ex.stubResult(fn, k)
	}
	if fn.Blocks == nil {
		panic(ex.unsupported("call to body-less function %s", name))
	}
	if len(ex.stack) >= ex.cfg.MaxDepth {
		panic(&pathEnd{kind: "unwind", msg: "call depth in " + name})
	}
	fi := ex.info(fn)
	fr := &frame{fn: fn, info: fi, vals: make([]Value, fi.n+len(fn.FreeVars)), env: fv.Env}
	copy(fr.vals, args)
	if len(args) != len(fn.Params) {
		panic(ex.unsupported("arity mismatch calling %s: %d args for %d params", name, len(args), len(fn.Params)))
	}
	ex.stack = append(ex.stack, fr)
	depth := len(ex.stack)
	if ex.initMode == 0 {
		ex.stats.Funcs[name]++
	}
	var ret Value
	func() {
		defer func() {
			r := recover()
			if r == nil {
				return
			}
			gp, ok := r.(*goPanic)
			if !ok {
				panic(r)
			}
			ex.stack = ex.stack[:depth]
			fr.panicking = gp
			ex.runDefers(fr)
			if fr.panicking != nil {
				panic(fr.panicking)
			}
			// recovered
			if fn.Recover != nil {
				ret, _ = ex.runBlocks(fr, fn.Recover, nil, nil)
			} else {
				ret = ex.zeroResults(fn)
			}
		}()
		ret, _ = ex.runBlocks(fr, fn.Blocks[0], nil, nil)
	}()
	ex.stack = ex.stack[:depth-1]
	return ret
}

func (ex *Exec) zeroResults(fn *ssa.Function) Value {
	res := fn.Signature.Results()
	switch res.Len() {
	case 0:
		return nil
	case 1:
		return ex.zero(res.At(0).Type())
	}
	return ex.zero(res)
}

func (ex *Exec) stubResult(fn *ssa.Function, kind string) Value {
	res := fn.Signature.Results()
	switch kind {
	case "zero", "noop":
		return ex.zeroResults(fn)
	case "havoc":
		mk := func(t types.Type, i int) Value { return ex.havoc(t, fmt.Sprintf("stub:%s#%d", fn.Name(), i)) }
		switch res.Len() {
		case 0:
			return nil
		case 1:
			return mk(res.At(0).Type(), 0)
		}
		a := make(AggV, res.Len())
		for i := range a {
			a[i] = mk(res.At(i).Type(), i)
		}
		return a
	}
	panic(ex.unsupported("unknown stub kind %q", kind))
}

// havoc returns an arbitrary value of type t (scalars, errors, strings of length 0).
func (ex *Exec) havoc(t types.Type, tag string) Value {
	ex.nowSeq++
	name := fmt.Sprintf("%s@%d", tag, ex.nowSeq)
	switch u := t.Underlying().(type) {
	case *types.Basic:
		switch {
		case u.Info()&types.IsBoolean != 0:
			return ex.input(name, 0)
		case u.Info()&types.IsInteger != 0:
			return ex.input(name, ex.widthOf(t))
		}
	case *types.Interface:
		if types.Identical(t, types.Universe.Lookup("error").Type()) {
			if ex.Branch(ex.input(name+":err", 0)) {
				return ex.newError("havoc error " + tag)
			}
			return IfaceV{}
		}
	}
	return ex.zero(t)
}

func (ex *Exec) newError(msg string) Value {
	p := ex.prog.ImportedPackage("errors")
	if p == nil {
		panic(ex.unsupported("package errors not loaded"))
	}
	es := p.Type("errorString").Type()
	c := ex.newCell(es)
	ex.store(ex.kid(c, 0), ex.mkStr(msg))
	return IfaceV{T: types.NewPointer(es), V: PtrV{C: c}}
}

func (ex *Exec) runDefers(fr *frame) {
	for len(fr.defers) > 0 {
		d := fr.defers[len(fr.defers)-1]
		fr.defers = fr.defers[:len(fr.defers)-1]
		ex.panics = append(ex.panics, fr)
		func() {
			defer func() { ex.panics = ex.panics[:len(ex.panics)-1] }()
			ex.call(d.fv, d.args)
		}()
	}
}

func (ex *Exec) lookupMethod(t types.Type, m *types.Func) *ssa.Function {
	fn := ex.prog.LookupMethod(t, m.Pkg(), m.Name())
	if fn == nil {
		panic(ex.unsupported("method %s not found on %s", m.Name(), t))
	}
	return fn
}

func (ex *Exec) doCall(fr *frame, cc *ssa.CallCommon) Value {
	args := make([]Value, 0, len(cc.Args)+1)
	if cc.IsInvoke() {
		recv, ok := ex.get(fr, cc.Value).(IfaceV)
		if !ok {
			panic(ex.unsupported("invoke on non-interface value"))
		}
		if recv.T == nil {
			panic(ex.rtPanic("invalid memory address or nil pointer dereference (nil interface method call " + cc.Method.Name() + ")"))
		}
		fn := ex.lookupMethod(recv.T, cc.Method)
		args = append(args, recv.V)
		for _, a := range cc.Args {
			args = append(args, ex.get(fr, a))
		}
		return ex.call(ex.funcValue(fn), args)
	}
	for _, a := range cc.Args {
		args = append(args, ex.get(fr, a))
	}
	if b, ok := cc.Value.(*ssa.Builtin); ok {
		return ex.builtin(fr, b.Name(), args, cc)
	}
	fv, ok := ex.get(fr, cc.Value).(*FuncV)
	if !ok {
		panic(ex.unsupported("call of non-func value %T", ex.get(fr, cc.Value)))
	}
	if fv != nil && fv.Fn != nil && len(fv.Env) > 0 {
		return ex.callClosure(fv, args)
	}
	return ex.call(fv, args)
}

func (ex *Exec) callClosure(fv *FuncV, args []Value) Value { return ex.call(fv, args) }

// ---------- block interpreter ----------

// runBlocks interprets from block b. With stop != nil it returns (nil, last block) when control
// is about to enter stop (used for the arms of a merge region).
func (ex *Exec) runBlocks(fr *frame, b *ssa.BasicBlock, pred *ssa.BasicBlock, stop *ssa.BasicBlock) (Value, *ssa.BasicBlock) {
	skipPhis := false
	if fr.visits == nil {
		fr.visits = make([]int32, len(fr.fn.Blocks))
	}
	// free variables live after the numbered values
	base := fr.info.n
	for i := range fr.fn.FreeVars {
		fr.vals[base+i] = fr.env[i]
	}
	for {
		fr.visits[b.Index]++
		if stop != nil && len(fr.regionHeads) > 0 && b == fr.regionHeads[len(fr.regionHeads)-1] {
			panic(&mergeAbort{"arm looped back to the branch"})
		}
		if int(fr.visits[b.Index]) > ex.cfg.MaxIter {
			if stop != nil {
				panic(&mergeAbort{"unwinding bound inside merge region"})
			}
			panic(&pathEnd{kind: "unwind", msg: fmt.Sprintf("%s block %d > %d iterations", fr.fn, b.Index, ex.cfg.MaxIter)})
		}
		// phis first (parallel assignment)
		nphi := 0
		if skipPhis {
			for _, in := range b.Instrs {
				if _, ok := in.(*ssa.Phi); !ok {
					break
				}
				nphi++
			}
			skipPhis = false
		} else if pred != nil {
			pi := -1
			for i, p := range b.Preds {
				if p == pred {
					pi = i
					break
				}
			}
			var tmp []Value
			for _, in := range b.Instrs {
				phi, ok := in.(*ssa.Phi)
				if !ok {
					break
				}
				tmp = append(tmp, ex.get(fr, phi.Edges[pi]))
				nphi++
			}
			for i := 0; i < nphi; i++ {
				ex.set(fr, b.Instrs[i].(*ssa.Phi), tmp[i])
			}
		}
		var next *ssa.BasicBlock
		for _, in := range b.Instrs[nphi:] {
			fr.cur = in
			ex.stats.Instrs++
			switch x := in.(type) {
			case *ssa.Jump:
				next = b.Succs[0]
			case *ssa.If:
				c := ex.get(fr, x.Cond).(*smt.Term)
				if !c.IsConst() {
					if j := ex.mergeJoin(fr, b); j != nil && j != stop && ex.tryMerge(fr, b, c, j) {
						next = j
						skipPhis = true
						break
					}
				}
				if ex.Branch(c) {
					next = b.Succs[0]
				} else {
					next = b.Succs[1]
				}
			case *ssa.Return:
				if stop != nil {
					panic(&mergeAbort{"return inside merge region"})
				}
				switch len(x.Results) {
				case 0:
					return nil, nil
				case 1:
					return ex.get(fr, x.Results[0]), nil
				}
				a := make(AggV, len(x.Results))
				for i, r := range x.Results {
					a[i] = ex.get(fr, r)
				}
				return a, nil
			case *ssa.Panic:
				v := ex.get(fr, x.X)
				panic(&goPanic{val: v, where: ex.where()})
			case *ssa.RunDefers:
				if stop != nil {
					panic(&mergeAbort{"rundefers inside merge region"})
				}
				ex.runDefers(fr)
			default:
				ex.exec(fr, in)
			}
		}
		if next == nil {
			panic(ex.unsupported("block without terminator in %s", fr.fn))
		}
		if stop != nil && next == stop {
			return nil, b
		}
		pred, b = b, next
	}
}

func (ex *Exec) freeVar(fr *frame, v *ssa.FreeVar) Value {
	for i, f := range fr.fn.FreeVars {
		if f == v {
			return fr.env[i]
		}
	}
	panic(ex.unsupported("free var %s", v.Name()))
}

func (ex *Exec) exec(fr *frame, in ssa.Instruction) {
	switch x := in.(type) {
	case *ssa.DebugRef:
	case *ssa.Alloc:
		c := ex.newCell(x.Type().(*types.Pointer).Elem())
		ex.set(fr, x, PtrV{C: c})
	case *ssa.Store:
		ex.storePtr(ex.get(fr, x.Addr), ex.get(fr, x.Val))
	case *ssa.UnOp:
		ex.set(fr, x, ex.unop(fr, x))
	case *ssa.BinOp:
		ex.set(fr, x, ex.binop(x.Op, ex.get(fr, x.X), ex.get(fr, x.Y), x.X.Type(), x.Y.Type()))
	case *ssa.Call:
		ex.set(fr, x, ex.doCall(fr, &x.Call))
	case *ssa.Phi:
		panic(ex.unsupported("phi outside block head"))
	case *ssa.FieldAddr:
		p := ex.get(fr, x.X).(PtrV)
		if p.C == nil {
			panic(ex.rtPanic("invalid memory address or nil pointer dereference"))
		}
		c := ex.ptrCell(p)
		ex.set(fr, x, PtrV{C: ex.kid(c, x.Field)})
	case *ssa.Field:
		a := ex.get(fr, x.X).(AggV)
		ex.set(fr, x, a[x.Field])
	case *ssa.IndexAddr:
		ex.set(fr, x, ex.indexAddr(fr, x))
	case *ssa.Index:
		ex.set(fr, x, ex.indexVal(fr, x))
	case *ssa.Slice:
		ex.set(fr, x, ex.sliceOp(fr, x))
	case *ssa.Extract:
		ex.set(fr, x, ex.get(fr, x.Tuple).(AggV)[x.Index])
	case *ssa.MakeInterface:
		ex.set(fr, x, IfaceV{T: x.X.Type(), V: ex.get(fr, x.X)})
	case *ssa.ChangeInterface:
		ex.set(fr, x, ex.get(fr, x.X))
	case *ssa.ChangeType:
		ex.set(fr, x, ex.get(fr, x.X))
	case *ssa.Convert:
		ex.set(fr, x, ex.convert(ex.get(fr, x.X), x.X.Type(), x.Type()))
	case *ssa.MultiConvert:
		ex.set(fr, x, ex.convert(ex.get(fr, x.X), x.X.Type(), x.Type()))
	case *ssa.TypeAssert:
		ex.set(fr, x, ex.typeAssert(x, ex.get(fr, x.X)))
	case *ssa.MakeClosure:
		fn := x.Fn.(*ssa.Function)
		env := make([]Value, len(x.Bindings))
		for i, b := range x.Bindings {
			env[i] = ex.get(fr, b)
		}
		ex.set(fr, x, &FuncV{Fn: fn, Env: env})
	case *ssa.MakeSlice:
		n := int(ex.Concretize(ex.get(fr, x.Len).(*smt.Term), 64))
		c := int(ex.Concretize(ex.get(fr, x.Cap).(*smt.Term), 64))
		if n < 0 || c < n || n > 1<<26 {
			panic(ex.rtPanic("makeslice: len out of range"))
		}
		arr := ex.newArrayCell(x.Type().Underlying().(*types.Slice).Elem(), c)
		ex.set(fr, x, SliceV{Arr: arr, Off: ex.intConst(0), Len: ex.intConst(int64(n)), Cap: ex.intConst(int64(c))})
	case *ssa.MakeMap:
		ex.objSeq++
		ex.set(fr, x, &MapObj{T: x.Type().Underlying().(*types.Map), id: ex.objSeq, base: ex.initMode > 0})
	case *ssa.MakeChan:
		n := int(ex.Concretize(ex.get(fr, x.Size).(*smt.Term), 16))
		ex.objSeq++
		ex.set(fr, x, &ChanObj{T: x.Type().Underlying().(*types.Chan), Cap: n, id: ex.objSeq})
	case *ssa.MapUpdate:
		m := ex.get(fr, x.Map).(*MapObj)
		if m == nil {
			panic(&goPanic{val: IfaceV{T: types.Typ[types.String], V: ex.mkStr("assignment to entry in nil map")}, where: ex.where()})
		}
		ex.mapSet(m, ex.get(fr, x.Key), ex.get(fr, x.Value))
	case *ssa.Lookup:
		ex.set(fr, x, ex.lookup(fr, x))
	case *ssa.Range:
		ex.set(fr, x, ex.rangeInit(ex.get(fr, x.X)))
	case *ssa.Next:
		ex.set(fr, x, ex.rangeNext(x, ex.get(fr, x.Iter).(*IterV)))
	case *ssa.Defer:
		ex.pushDefer(fr, &x.Call)
	case *ssa.Go:
		ex.goStmt(fr, &x.Call)
	case *ssa.Send:
		ex.chanSend(ex.get(fr, x.Chan).(*ChanObj), ex.get(fr, x.X))
	case *ssa.Select:
		ex.set(fr, x, ex.selectOp(fr, x))
	case *ssa.SliceToArrayPointer:
		s := ex.get(fr, x.X).(SliceV)
		n := x.Type().(*types.Pointer).Elem().Underlying().(*types.Array).Len()
		ln := int64(ex.Concretize(s.Len, 64))
		if ln < n {
			panic(ex.rtPanic("cannot convert slice to array pointer: length too short"))
		}
		if s.Arr == nil {
			ex.set(fr, x, PtrV{})
			return
		}
		off := int(ex.Concretize(s.Off, 64))
		ex.set(fr, x, PtrV{C: ex.subArray(s.Arr, off, int(n), x.Type().(*types.Pointer).Elem())})
	default:
		panic(ex.unsupported("instruction %T", in))
	}
}

// subArray returns a cell that aliases elements [off, off+n) of arr as an array cell.
func (ex *Exec) subArray(arr *Cell, off, n int, t types.Type) *Cell {
	if off == 0 && n == len(arr.Kids) {
		return arr
	}
	ex.cellSeq++
	c := &Cell{T: t, id: ex.cellSeq, age: ex.cellSeq, Kids: make([]*Cell, n)}
	for i := 0; i < n; i++ {
		c.Kids[i] = ex.kid(arr, off+i)
	}
	return c
}

func (ex *Exec) pushDefer(fr *frame, cc *ssa.CallCommon) {
	if fr.region > 0 {
		panic(&mergeAbort{"defer inside merge region"})
	}
	args := make([]Value, 0, len(cc.Args)+1)
	var fv *FuncV
	if cc.IsInvoke() {
		recv := ex.get(fr, cc.Value).(IfaceV)
		if recv.T == nil {
			panic(ex.rtPanic("nil interface in defer"))
		}
		fv = ex.funcValue(ex.lookupMethod(recv.T, cc.Method))
		args = append(args, recv.V)
	} else if b, ok := cc.Value.(*ssa.Builtin); ok {
		fv = &FuncV{Builtin: "builtin:" + b.Name()}
	} else {
		fv = ex.get(fr, cc.Value).(*FuncV)
	}
	for _, a := range cc.Args {
		args = append(args, ex.get(fr, a))
	}
	fr.defers = append(fr.defers, deferred{fv: fv, args: args})
}

// ---------- memory ----------

// ptrCell resolves a pointer with a concrete target.
func (ex *Exec) ptrCell(p PtrV) *Cell {
	if p.Idx == nil {
		return p.C
	}
	i := int(ex.Concretize(p.Idx, 256))
	return ex.kid(p.C, i)
}

const iteChainMax = 1024

func (ex *Exec) loadPtr(pv Value) Value {
	p, ok := pv.(PtrV)
	if !ok {
		panic(ex.unsupported("load through %T", pv))
	}
	if p.C == nil {
		panic(ex.rtPanic("invalid memory address or nil pointer dereference"))
	}
	if p.Idx == nil {
		return ex.load(p.C)
	}
	return ex.loadIdx(p.C, p.Idx, p.Lo, p.Hi)
}

func (ex *Exec) loadIdx(arr *Cell, idx *smt.Term, lo, hi int) Value {
	if idx.IsConst() {
		return ex.load(ex.kid(arr, int(idx.Val)))
	}
	if smt.IsIteConst(idx) {
		return ex.mapIteValue(idx, func(k *smt.Term) Value {
			if k.Val >= uint64(len(arr.Kids)) {
				return ex.zero(arr.elemType()) // leaf excluded by the preceding bounds check
			}
			return ex.load(ex.kid(arr, int(k.Val)))
		})
	}
	if hi <= lo {
		lo, hi = 0, len(arr.Kids)
	}
	if hi-lo > iteChainMax {
		i := int(ex.Concretize(idx, 256))
		return ex.load(ex.kid(arr, i))
	}
	var res Value
	var z Value
	for i := hi - 1; i >= lo; i-- {
		var v Value
		if arr.Kids[i] == nil {
			if z == nil {
				z = ex.zero(arr.elemType())
			}
			v = z
		} else {
			v = ex.load(arr.Kids[i])
		}
		if res == nil {
			res = v
			continue
		}
		if ex.sameValue(res, v) {
			continue
		}
		res = ex.ite(ex.ctx.Eq(idx, ex.intConst(int64(i))), v, res)
	}
	return res
}

func (ex *Exec) storePtr(pv Value, v Value) {
	p, ok := pv.(PtrV)
	if !ok {
		panic(ex.unsupported("store through %T", pv))
	}
	if p.C == nil {
		panic(ex.rtPanic("invalid memory address or nil pointer dereference"))
	}
	if p.Idx == nil {
		ex.store(p.C, v)
		return
	}
	if p.Idx.IsConst() {
		ex.store(ex.kid(p.C, int(p.Idx.Val)), v)
		return
	}
	lo, hi := p.Lo, p.Hi
	if hi <= lo {
		lo, hi = 0, len(p.C.Kids)
	}
	if hi-lo > iteChainMax {
		ex.store(ex.kid(p.C, int(ex.Concretize(p.Idx, 256))), v)
		return
	}
	for i := lo; i < hi; i++ {
		k := ex.kid(p.C, i)
		old := ex.load(k)
		ex.store(k, ex.ite(ex.ctx.Eq(p.Idx, ex.intConst(int64(i))), v, old))
	}
}

func (ex *Exec) toInt64(v Value, t types.Type) *smt.Term {
	x := v.(*smt.Term)
	return ex.ctx.Resize(x, 64, isSigned(t))
}

func (ex *Exec) boundsCheck(idx, n *smt.Term, what string) {
	ok := ex.ctx.ULT(idx, n) // idx as unsigned < n covers negative idx
	if !ex.Branch(ok) {
		panic(ex.rtPanic("index out of range (" + what + ")"))
	}
}

func (ex *Exec) indexAddr(fr *frame, x *ssa.IndexAddr) Value {
	base := ex.get(fr, x.X)
	idx := ex.toInt64(ex.get(fr, x.Index), x.Index.Type())
	switch b := base.(type) {
	case PtrV: // *array
		if b.C == nil {
			panic(ex.rtPanic("invalid memory address or nil pointer dereference"))
		}
		c := ex.ptrCell(b)
		n := len(c.Kids)
		ex.boundsCheck(idx, ex.intConst(int64(n)), "array")
		if idx.IsConst() {
			return PtrV{C: ex.kid(c, int(idx.Val))}
		}
		return PtrV{C: c, Idx: idx, Lo: 0, Hi: n}
	case SliceV:
		if b.Arr == nil {
			panic(ex.rtPanic("index out of range (nil slice)"))
		}
		ex.boundsCheck(idx, b.Len, "slice")
		abs := ex.ctx.Add(b.Off, idx)
		if abs.IsConst() {
			return PtrV{C: ex.kid(b.Arr, int(abs.Val))}
		}
		lo, hi := 0, len(b.Arr.Kids)
		if b.Off.IsConst() {
			lo = int(b.Off.Val)
			if b.Len.IsConst() {
				hi = lo + int(b.Len.Val)
			}
		}
		return PtrV{C: b.Arr, Idx: abs, Lo: lo, Hi: hi}
	}
	panic(ex.unsupported("IndexAddr on %T", base))
}

func (ex *Exec) indexVal(fr *frame, x *ssa.Index) Value {
	base := ex.get(fr, x.X)
	idx := ex.toInt64(ex.get(fr, x.Index), x.Index.Type())
	switch b := base.(type) {
	case AggV:
		ex.boundsCheck(idx, ex.intConst(int64(len(b))), "array value")
		if idx.IsConst() {
			return b[idx.Val]
		}
		if smt.IsIteConst(idx) {
			return ex.mapIteValue(idx, func(k *smt.Term) Value {
				if k.Val >= uint64(len(b)) {
					return b[0]
				}
				return b[k.Val]
			})
		}
		var res Value
		for i := len(b) - 1; i >= 0; i-- {
			if res == nil {
				res = b[i]
				continue
			}
			res = ex.ite(ex.ctx.Eq(idx, ex.intConst(int64(i))), b[i], res)
		}
		return res
	case StrV:
		ex.boundsCheck(idx, ex.intConst(int64(len(b.B))), "string")
		return ex.strIndex(b, idx)
	}
	panic(ex.unsupported("Index on %T", base))
}

func (ex *Exec) strIndex(s StrV, idx *smt.Term) *smt.Term {
	if idx.IsConst() {
		return s.B[idx.Val]
	}
	if smt.IsIteConst(idx) {
		return ex.ctx.MapIte(idx, func(k *smt.Term) *smt.Term {
			if k.Val >= uint64(len(s.B)) {
				return ex.byteConst(0)
			}
			return s.B[k.Val]
		})
	}
	res := s.B[len(s.B)-1]
	for i := len(s.B) - 2; i >= 0; i-- {
		res = ex.ctx.Ite(ex.ctx.Eq(idx, ex.intConst(int64(i))), s.B[i], res)
	}
	return res
}

func (ex *Exec) sliceOp(fr *frame, x *ssa.Slice) Value {
	base := ex.get(fr, x.X)
	var lo, hi, max *smt.Term
	if x.Low != nil {
		lo = ex.toInt64(ex.get(fr, x.Low), x.Low.Type())
	}
	if x.High != nil {
		hi = ex.toInt64(ex.get(fr, x.High), x.High.Type())
	}
	if x.Max != nil {
		max = ex.toInt64(ex.get(fr, x.Max), x.Max.Type())
	}
	zero := ex.intConst(0)
	if lo == nil {
		lo = zero
	}
	switch b := base.(type) {
	case StrV:
		n := ex.intConst(int64(len(b.B)))
		if hi == nil {
			hi = n
		}
		ex.sliceBounds(lo, hi, n, n)
		l := int(ex.Concretize(lo, 256))
		h := int(ex.Concretize(hi, 256))
		return StrV{B: b.B[l:h]}
	case SliceV:
		if b.Arr == nil {
			if hi == nil {
				hi = zero
			}
			if max == nil {
				max = zero
			}
			ex.sliceBounds(lo, hi, max, zero)
			return SliceV{}
		}
		if hi == nil {
			hi = b.Len
		}
		if max == nil {
			max = b.Cap
		}
		ex.sliceBounds(lo, hi, max, b.Cap)
		return SliceV{Arr: b.Arr, Off: ex.ctx.Add(b.Off, lo), Len: ex.ctx.Sub(hi, lo), Cap: ex.ctx.Sub(max, lo)}
	case PtrV: // *array
		if b.C == nil {
			panic(ex.rtPanic("slice of nil array pointer"))
		}
		c := ex.ptrCell(b)
		n := ex.intConst(int64(len(c.Kids)))
		if hi == nil {
			hi = n
		}
		if max == nil {
			max = n
		}
		ex.sliceBounds(lo, hi, max, n)
		return SliceV{Arr: c, Off: lo, Len: ex.ctx.Sub(hi, lo), Cap: ex.ctx.Sub(max, lo)}
	}
	panic(ex.unsupported("Slice on %T", base))
}

// sliceBounds checks 0 <= lo <= hi <= max <= cap.
func (ex *Exec) sliceBounds(lo, hi, max, cap *smt.Term) {
	c := ex.ctx
	ok := c.And(c.SLE(c.BV(64, 0), lo), c.SLE(lo, hi), c.SLE(hi, max), c.SLE(max, cap))
	if !ex.Branch(ok) {
		panic(ex.rtPanic("slice bounds out of range"))
	}
}

func (ex *Exec) unop(fr *frame, x *ssa.UnOp) Value {
	v := ex.get(fr, x.X)
	switch x.Op {
	case token.MUL:
		return ex.loadPtr(v)
	case token.NOT:
		return ex.ctx.Not(v.(*smt.Term))
	case token.SUB:
		switch t := v.(type) {
		case *smt.Term:
			return ex.ctx.Neg(t)
		case FloatV:
			return -t
		}
	case token.XOR:
		return ex.ctx.BNot(v.(*smt.Term))
	case token.ARROW:
		val, ok := ex.chanRecv(v.(*ChanObj), true)
		if x.CommaOk {
			return AggV{val, ex.ctx.Bool(ok)}
		}
		return val
	}
	panic(ex.unsupported("unop %s on %T", x.Op, v))
}

func (ex *Exec) typeAssert(x *ssa.TypeAssert, v Value) Value {
	iv, ok := v.(IfaceV)
	if !ok {
		panic(ex.unsupported("TypeAssert on %T", v))
	}
	okb := false
	var res Value
	if iv.T != nil {
		if types.IsInterface(x.AssertedType) {
			if it, isI := x.AssertedType.Underlying().(*types.Interface); isI {
				okb = types.Implements(iv.T, it)
			}
			res = iv
		} else {
			okb = types.Identical(iv.T, x.AssertedType)
			res = iv.V
		}
	}
	if !okb {
		if types.IsInterface(x.AssertedType) {
			res = IfaceV{}
		} else {
			res = ex.zero(x.AssertedType)
		}
	}
	if x.CommaOk {
		return AggV{res, ex.ctx.Bool(okb)}
	}
	if !okb {
		dyn := "nil"
		if iv.T != nil {
			dyn = iv.T.String()
		}
		panic(&goPanic{runtime: "interface conversion: " + dyn + " is not " + x.AssertedType.String(), where: ex.where(),
			val: IfaceV{T: types.Typ[types.String], V: ex.mkStr("interface conversion")}})
	}
	return res
}

// mapIteValue maps the constant leaves of an index ite-tree to values and merges them.
func (ex *Exec) mapIteValue(t *smt.Term, f func(*smt.Term) Value) Value {
	if t.Op == smt.OpIte {
		return ex.ite(t.Args[0], ex.mapIteValue(t.Args[1], f), ex.mapIteValue(t.Args[2], f))
	}
	return f(t)
}
