package gosym

import (
	"golang.org/x/tools/go/ssa"
	"verif/engine/smt"
)

// Time abstraction. A time.Time produced under the executor is {wall: timeTag, ext: Unix
// nanoseconds, loc: nil}: one 64-bit instant, no wall/monotonic split, no zones. The zero
// Time{} keeps its meaning (IsZero, and UnixNano of year 1). All comparison and arithmetic
// methods used by the code under test are intrinsics over that representation, so instants
// are plain bit-vector variables for the solver. Calendar methods (Format, Date, ...) are
// outside the abstraction.

const timeTag = uint64(1) << 63
const zeroTimeUnixNano = int64(-6795364578871345152)

func (ex *Exec) mkTime(nanos *smt.Term) Value {
	return AggV{ex.ctx.BV(64, timeTag), nanos, PtrV{}}
}

func (ex *Exec) timeNanos(v Value) *smt.Term {
	a, ok := v.(AggV)
	if !ok || len(a) != 3 {
		panic(ex.unsupported("time value of unexpected shape %T", v))
	}
	wall := a[0].(*smt.Term)
	ext := a[1].(*smt.Term)
	if wall.IsConst() {
		if wall.Val == timeTag {
			return ext
		}
		if wall.Val == 0 && ext.IsConst() && ext.Val == 0 {
			return ex.intConst(zeroTimeUnixNano)
		}
		panic(ex.unsupported("time.Time not produced by the time abstraction (wall=%#x)", wall.Val))
	}
	c := ex.ctx
	return c.Ite(c.Eq(wall, c.BV(64, timeTag)), ext, ex.intConst(zeroTimeUnixNano))
}

func (ex *Exec) timeIsZero(v Value) *smt.Term {
	a := v.(AggV)
	c := ex.ctx
	return c.And(c.Eq(a[0].(*smt.Term), c.BV(64, 0)), c.Eq(a[1].(*smt.Term), c.BV(64, 0)))
}

func init() {
	extraIntrinsics = append(extraIntrinsics, func(t map[string]intrinsic) {
		c := func(ex *Exec) *smt.Ctx { return ex.ctx }
		t["time.Now"] = func(ex *Exec, fn *ssa.Function, a []Value) Value { return ex.mkTime(ex.nextNow()) }
		t["(time.Time).UnixNano"] = func(ex *Exec, fn *ssa.Function, a []Value) Value { return ex.timeNanos(a[0]) }
		t["(time.Time).UnixMilli"] = func(ex *Exec, fn *ssa.Function, a []Value) Value {
			return c(ex).SDiv(ex.timeNanos(a[0]), ex.intConst(1_000_000))
		}
		t["(time.Time).UnixMicro"] = func(ex *Exec, fn *ssa.Function, a []Value) Value {
			return c(ex).SDiv(ex.timeNanos(a[0]), ex.intConst(1_000))
		}
		t["(time.Time).Unix"] = func(ex *Exec, fn *ssa.Function, a []Value) Value {
			return c(ex).SDiv(ex.timeNanos(a[0]), ex.intConst(1_000_000_000))
		}
		t["(time.Time).IsZero"] = func(ex *Exec, fn *ssa.Function, a []Value) Value { return ex.timeIsZero(a[0]) }
		t["(time.Time).Add"] = func(ex *Exec, fn *ssa.Function, a []Value) Value {
			return ex.mkTime(c(ex).Add(ex.timeNanos(a[0]), a[1].(*smt.Term)))
		}
		t["(time.Time).Sub"] = func(ex *Exec, fn *ssa.Function, a []Value) Value {
			return c(ex).Sub(ex.timeNanos(a[0]), ex.timeNanos(a[1]))
		}
		t["(time.Time).After"] = func(ex *Exec, fn *ssa.Function, a []Value) Value {
			return c(ex).SLT(ex.timeNanos(a[1]), ex.timeNanos(a[0]))
		}
		t["(time.Time).Before"] = func(ex *Exec, fn *ssa.Function, a []Value) Value {
			return c(ex).SLT(ex.timeNanos(a[0]), ex.timeNanos(a[1]))
		}
		t["(time.Time).Equal"] = func(ex *Exec, fn *ssa.Function, a []Value) Value {
			return c(ex).Eq(ex.timeNanos(a[0]), ex.timeNanos(a[1]))
		}
		t["(time.Time).Compare"] = func(ex *Exec, fn *ssa.Function, a []Value) Value {
			x, y := ex.timeNanos(a[0]), ex.timeNanos(a[1])
			return c(ex).Ite(c(ex).SLT(x, y), ex.intConst(-1), c(ex).Ite(c(ex).SLT(y, x), ex.intConst(1), ex.intConst(0)))
		}
		t["time.Since"] = func(ex *Exec, fn *ssa.Function, a []Value) Value {
			return c(ex).Sub(ex.nextNow(), ex.timeNanos(a[0]))
		}
		t["time.Until"] = func(ex *Exec, fn *ssa.Function, a []Value) Value {
			return c(ex).Sub(ex.timeNanos(a[0]), ex.nextNow())
		}
		t["time.Unix"] = func(ex *Exec, fn *ssa.Function, a []Value) Value {
			sec, nsec := a[0].(*smt.Term), a[1].(*smt.Term)
			return ex.mkTime(c(ex).Add(c(ex).Mul(sec, ex.intConst(1_000_000_000)), nsec))
		}
		t["time.UnixMilli"] = func(ex *Exec, fn *ssa.Function, a []Value) Value {
			return ex.mkTime(c(ex).Mul(a[0].(*smt.Term), ex.intConst(1_000_000)))
		}
		t["runtime.GOMAXPROCS"] = func(ex *Exec, fn *ssa.Function, a []Value) Value { return ex.intConst(8) }
		t["runtime.NumCPU"] = func(ex *Exec, fn *ssa.Function, a []Value) Value { return ex.intConst(8) }
		t["(time.Time).UTC"] = func(ex *Exec, fn *ssa.Function, a []Value) Value { return a[0] }
		t["(time.Time).Local"] = func(ex *Exec, fn *ssa.Function, a []Value) Value { return a[0] }
		t["(time.Time).Round"] = func(ex *Exec, fn *ssa.Function, a []Value) Value { return a[0] }
		t["(time.Time).String"] = func(ex *Exec, fn *ssa.Function, a []Value) Value { return ex.mkStr("<time>") }
		t["(time.Duration).String"] = func(ex *Exec, fn *ssa.Function, a []Value) Value { return ex.mkStr("<duration>") }
	})
}

// Randomness: an arbitrary value of the documented range.
func init() {
	extraIntrinsics = append(extraIntrinsics, func(t map[string]intrinsic) {
		randN := func(w int) intrinsic {
			return func(ex *Exec, fn *ssa.Function, a []Value) Value {
				n := a[0].(*smt.Term)
				ex.nowSeq++
				v := ex.input("rand#"+itoa(ex.nowSeq), w)
				c := ex.ctx
				if !ex.Branch(c.SLT(c.BV(w, 0), n)) {
					panic(&goPanic{runtime: "invalid argument to IntN", where: ex.where(), val: IfaceV{}})
				}
				ex.assume(c.And(c.SLE(c.BV(w, 0), v), c.SLT(v, n)))
				return v
			}
		}
		for _, p := range []string{"math/rand/v2.", "math/rand.", "github.com/daeuniverse/outbound/pkg/fastrand."} {
			t[p+"IntN"] = randN(64)
			t[p+"Intn"] = randN(64)
			t[p+"Int64N"] = randN(64)
			t[p+"Int63n"] = randN(64)
			t[p+"Int32N"] = randN(32)
			t[p+"Int31n"] = randN(32)
			t[p+"Shuffle"] = func(ex *Exec, fn *ssa.Function, a []Value) Value {
				if ex.initMode > 0 {
					return nil // a package initialiser shuffling a list: order left as written
				}
				panic(ex.unsupported("rand.Shuffle outside a package initialiser"))
			}
			t[p+"Uint32"] = func(ex *Exec, fn *ssa.Function, a []Value) Value {
				ex.nowSeq++
				return ex.input("rand#"+itoa(ex.nowSeq), 32)
			}
			t[p+"Uint64"] = func(ex *Exec, fn *ssa.Function, a []Value) Value {
				ex.nowSeq++
				return ex.input("rand#"+itoa(ex.nowSeq), 64)
			}
		}
	})
}

func itoa(i int) string {
	if i == 0 {
		return "0"
	}
	var b [20]byte
	p := len(b)
	for i > 0 {
		p--
		b[p] = byte('0' + i%10)
		i /= 10
	}
	return string(b[p:])
}
