package gosym

import (
	"go/types"

	"golang.org/x/tools/go/ssa"
	"verif/engine/smt"
)

// Timers. A timer or ticker is a channel with a timerState. In the default (deterministic) mode a
// timer never fires: whoever waits only on it stays parked. In schedule-exploring mode an armed
// timer may fire whenever its waiter is scheduled ("time passes arbitrarily"), at most
// timerBudget times per timer, so "the timer fired first" and "the data arrived first" are both
// explored at every select that includes a timer.

type timerState struct {
	armed    bool
	periodic bool
	fires    int
}

const timerBudget = 2

func (ex *Exec) timerReady(ch *ChanObj) bool {
	return ch != nil && ch.Timer != nil && ex.explore && ch.Timer.armed && ch.Timer.fires < timerBudget
}

// timerFire delivers one tick into the channel.
func (ex *Exec) timerFire(ch *ChanObj) {
	ch.Timer.fires++
	if !ch.Timer.periodic {
		ch.Timer.armed = false
	}
	ch.Buf = append(ch.Buf, ex.mkTime(ex.nextNow()))
}

func init() {
	extraIntrinsics = append(extraIntrinsics, func(t map[string]intrinsic) {
		newTimerObj := func(ex *Exec, fn *ssa.Function, periodic bool) (Value, *ChanObj) {
			ex.noGuard("timer creation")
			pt := fn.Signature.Results().At(0).Type().(*types.Pointer)
			c := ex.newCell(pt.Elem())
			st := pt.Elem().Underlying().(*types.Struct)
			var ch *ChanObj
			for i := 0; i < st.NumFields(); i++ {
				if st.Field(i).Name() == "C" {
					ex.objSeq++
					ch = &ChanObj{T: st.Field(i).Type().Underlying().(*types.Chan), Cap: 1, id: ex.objSeq,
						Timer: &timerState{armed: true, periodic: periodic}}
					ex.store(ex.kid(c, i), ch)
				}
			}
			return PtrV{C: c}, ch
		}
		chanOf := func(ex *Exec, recv Value) *ChanObj {
			c := ex.cellOf(recv)
			st := c.T.Underlying().(*types.Struct)
			for i := 0; i < st.NumFields(); i++ {
				if st.Field(i).Name() == "C" {
					ch, _ := ex.load(ex.kid(c, i)).(*ChanObj)
					return ch
				}
			}
			return nil
		}
		t["time.NewTimer"] = func(ex *Exec, fn *ssa.Function, a []Value) Value {
			p, _ := newTimerObj(ex, fn, false)
			return p
		}
		t["time.NewTicker"] = func(ex *Exec, fn *ssa.Function, a []Value) Value {
			p, _ := newTimerObj(ex, fn, true)
			return p
		}
		t["time.After"] = func(ex *Exec, fn *ssa.Function, a []Value) Value {
			ex.noGuard("timer creation")
			ex.objSeq++
			return &ChanObj{T: fn.Signature.Results().At(0).Type().Underlying().(*types.Chan), Cap: 1, id: ex.objSeq,
				Timer: &timerState{armed: true}}
		}
		t["time.Tick"] = func(ex *Exec, fn *ssa.Function, a []Value) Value {
			ex.noGuard("timer creation")
			ex.objSeq++
			return &ChanObj{T: fn.Signature.Results().At(0).Type().Underlying().(*types.Chan), Cap: 1, id: ex.objSeq,
				Timer: &timerState{armed: true, periodic: true}}
		}
		stop := func(ex *Exec, fn *ssa.Function, a []Value) Value {
			ex.noGuard("timer operation")
			ex.preemptPoint()
			ch := chanOf(ex, a[0])
			if ch == nil || ch.Timer == nil {
				// AfterFunc timer: state kept in ghost
				k := "afterfunc:" + itoa(ex.cellOf(a[0]).id)
				was, _ := ex.ghost[k].(bool)
				ex.ghost[k] = false
				return ex.ctx.Bool(was)
			}
			was := ch.Timer.armed
			ch.Timer.armed = false
			ch.Buf = nil // go1.23 semantics: no stale value after Stop
			if fn.Signature.Results().Len() == 0 {
				return nil
			}
			return ex.ctx.Bool(was)
		}
		reset := func(ex *Exec, fn *ssa.Function, a []Value) Value {
			ex.noGuard("timer operation")
			ex.preemptPoint()
			ch := chanOf(ex, a[0])
			if ch == nil || ch.Timer == nil {
				k := "afterfunc:" + itoa(ex.cellOf(a[0]).id)
				was, _ := ex.ghost[k].(bool)
				ex.ghost[k] = true
				return ex.ctx.Bool(was)
			}
			was := ch.Timer.armed
			ch.Timer.armed = true
			ch.Buf = nil
			if fn.Signature.Results().Len() == 0 {
				return nil
			}
			return ex.ctx.Bool(was)
		}
		t["(*time.Timer).Stop"] = stop
		t["(*time.Ticker).Stop"] = stop
		t["(*time.Timer).Reset"] = reset
		t["(*time.Ticker).Reset"] = reset
		t["time.Sleep"] = func(ex *Exec, fn *ssa.Function, a []Value) Value {
			ex.preemptPoint()
			return nil
		}
		t["time.AfterFunc"] = func(ex *Exec, fn *ssa.Function, a []Value) Value {
			ex.noGuard("timer creation")
			pt := fn.Signature.Results().At(0).Type().(*types.Pointer)
			c := ex.newCell(pt.Elem())
			k := "afterfunc:" + itoa(c.id)
			ex.ghost[k] = true
			f := a[1].(*FuncV)
			if ex.explore {
				// the callback runs as its own goroutine at some point, if the timer is still armed then
				ex.spawn(&FuncV{Builtin: "time.AfterFunc", Native: func(ex *Exec, _ []Value) Value {
					if armed, _ := ex.ghost[k].(bool); armed {
						ex.ghost[k] = false
						ex.call(f, nil)
					}
					return nil
				}}, nil)
			}
			return PtrV{C: c}
		}
		_ = smt.Unknown
		// sync.Cond: a generation counter per condition variable; Wait releases L, parks until the
		// generation changes (Signal wakes every waiter - a permitted spurious wake-up for the
		// others), and re-acquires L.
		condKey := func(ex *Exec, a []Value) string {
			ex.noGuard("condition variable")
			return "cond:" + itoa(ex.cellOf(a[0]).id)
		}
		callL := func(ex *Exec, recv Value, method string) {
			c := ex.cellOf(recv)
			st := c.T.Underlying().(*types.Struct)
			for i := 0; i < st.NumFields(); i++ {
				if st.Field(i).Name() == "L" {
					l, _ := ex.load(ex.kid(c, i)).(IfaceV)
					if l.T == nil {
						panic(ex.rtPanic("sync.Cond with nil L"))
					}
					m := ex.lookupMethodByName(l.T, method)
					ex.call(ex.funcValue(m), []Value{l.V})
					return
				}
			}
			panic(ex.unsupported("sync.Cond without field L"))
		}
		t["(*sync.Cond).Wait"] = func(ex *Exec, fn *ssa.Function, a []Value) Value {
			k := condKey(ex, a)
			gen, _ := ex.ghost[k].(int)
			callL(ex, a[0], "Unlock")
			ex.block(func() bool { g, _ := ex.ghost[k].(int); return g != gen }, "sync.Cond.Wait")
			callL(ex, a[0], "Lock")
			return nil
		}
		wake := func(ex *Exec, fn *ssa.Function, a []Value) Value {
			k := condKey(ex, a)
			g, _ := ex.ghost[k].(int)
			ex.ghost[k] = g + 1
			return nil
		}
		t["(*sync.Cond).Broadcast"] = wake
		t["(*sync.Cond).Signal"] = wake
	})
}
