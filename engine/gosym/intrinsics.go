package gosym

import (
	"fmt"
	"go/types"
	"strings"

	"golang.org/x/tools/go/ssa"
	"verif/engine/smt"
)

type intrinsic func(ex *Exec, fn *ssa.Function, args []Value) Value

var extraIntrinsics []func(map[string]intrinsic)

const vsPkg = "github.com/daeuniverse/dae/zz_vs"

func skipInit(path string) bool {
	switch path {
	case "runtime", "internal/cpu", "os", "syscall", "internal/poll", "internal/godebug", "reflect",
		"internal/reflectlite", "internal/bytealg", "internal/syscall/unix", "crypto/rand", "internal/runtime/maps",
		"github.com/sirupsen/logrus", "testing", "internal/abi", "runtime/debug", "os/signal", "internal/sync", "sync":
		return true
	}
	return strings.HasPrefix(path, "crypto/") || strings.HasPrefix(path, "internal/runtime/") || strings.HasPrefix(path, "vendor/")
}

func defaultStub(name string) (string, bool) {
	switch {
	case strings.HasPrefix(name, "github.com/sirupsen/logrus."), strings.HasPrefix(name, "(*github.com/sirupsen/logrus."),
		strings.HasPrefix(name, "(github.com/sirupsen/logrus."):
		return "zero", true
	case strings.HasPrefix(name, "fmt.Print"), strings.HasPrefix(name, "fmt.Fprint"), strings.HasPrefix(name, "log."),
		strings.HasPrefix(name, "(*log.Logger)."):
		return "zero", true
	}
	switch name {
	case "runtime.Gosched", "runtime.KeepAlive", "runtime.SetFinalizer", "runtime.GC", "time.Sleep", "runtime/debug.FreeOSMemory",
		"runtime/debug.SetGCPercent", "runtime.Callers", "runtime.Caller", "runtime/debug.Stack", "runtime/debug.PrintStack",
		"internal/race.Acquire", "internal/race.Release", "internal/race.ReleaseMerge", "internal/race.Disable", "internal/race.Enable",
		"internal/race.Read", "internal/race.Write", "internal/race.ReadRange", "internal/race.WriteRange",
		"sync.runtime_registerPoolCleanup", "sync.throw", "sync.fatal", "runtime.AddCleanup":
		return "zero", true
	}
	return "", false
}

func (ex *Exec) callNative(fv *FuncV, args []Value) Value {
	switch fv.Builtin {
	case "builtin:close":
		return ex.builtin(nil, "close", args, nil)
	case "builtin:recover":
		return ex.doRecover()
	case "builtin:print", "builtin:println":
		return nil
	case "builtin:delete":
		return ex.builtin(nil, "delete", args, nil)
	case "builtin:panic":
		panic(&goPanic{val: args[0], where: ex.where()})
	}
	if fv.Native != nil {
		return fv.Native(ex, args)
	}
	panic(ex.unsupported("native function %q", fv.Builtin))
}

func (ex *Exec) argStr(v Value) string {
	s, ok := v.(StrV)
	if !ok {
		panic(ex.unsupported("expected string argument, got %T", v))
	}
	str, ok := ex.concreteStr(s)
	if !ok {
		panic(ex.unsupported("expected concrete string argument"))
	}
	return str
}

func (ex *Exec) argInt(v Value) int64 {
	t := v.(*smt.Term)
	if !t.IsConst() {
		panic(ex.unsupported("expected concrete int argument"))
	}
	return t.SVal()
}

func (ex *Exec) bytesSlice(ts []*smt.Term) SliceV {
	arr := ex.newArrayCell(types.Typ[types.Uint8], len(ts))
	for i, t := range ts {
		ex.kid(arr, i).V = t
	}
	n := ex.intConst(int64(len(ts)))
	return SliceV{Arr: arr, Off: ex.intConst(0), Len: n, Cap: n}
}

func (ex *Exec) sliceBytes(s SliceV) []*smt.Term {
	if s.Arr == nil {
		return nil
	}
	n := int(ex.Concretize(s.Len, 256))
	out := make([]*smt.Term, n)
	for i := range out {
		out[i] = ex.sliceElem(s, i).(*smt.Term)
	}
	return out
}

func (ex *Exec) toBytes(v Value) []*smt.Term {
	switch x := v.(type) {
	case StrV:
		return x.B
	case SliceV:
		return ex.sliceBytes(x)
	}
	panic(ex.unsupported("toBytes %T", v))
}

// indexByte forks on the first position where b occurs.
func (ex *Exec) indexByte(s []*smt.Term, b *smt.Term) int64 {
	for i, x := range s {
		if ex.Branch(ex.ctx.Eq(x, b)) {
			return int64(i)
		}
	}
	return -1
}

func (ex *Exec) indexSeq(s, sep []*smt.Term) int64 {
	if len(sep) == 0 {
		return 0
	}
	for i := 0; i+len(sep) <= len(s); i++ {
		cs := make([]*smt.Term, len(sep))
		for j := range sep {
			cs[j] = ex.ctx.Eq(s[i+j], sep[j])
		}
		if ex.Branch(ex.ctx.And(cs...)) {
			return int64(i)
		}
	}
	return -1
}

func vsName(n string) string { return vsPkg + "." + n }

func intrinsicTable() map[string]intrinsic {
	t := map[string]intrinsic{}
	scalar := func(w int) intrinsic {
		return func(ex *Exec, fn *ssa.Function, a []Value) Value { return ex.input(ex.argStr(a[0]), w) }
	}
	t[vsName("Bool")] = scalar(0)
	t[vsName("U8")] = scalar(8)
	t[vsName("U16")] = scalar(16)
	t[vsName("U32")] = scalar(32)
	t[vsName("U64")] = scalar(64)
	t[vsName("I8")] = scalar(8)
	t[vsName("I16")] = scalar(16)
	t[vsName("I32")] = scalar(32)
	t[vsName("I64")] = scalar(64)
	t[vsName("Int")] = scalar(64)
	t[vsName("Thorough")] = func(ex *Exec, fn *ssa.Function, a []Value) Value { return ex.ctx.Bool(ex.world.Thorough) }
	t[vsName("Emit")] = func(ex *Exec, fn *ssa.Function, a []Value) Value {
		v := a[1].(*smt.Term)
		if !v.IsConst() {
			panic(ex.unsupported("vs.Emit of symbolic value"))
		}
		ex.stats.Emits[ex.argStr(a[0])] = v.Val
		return nil
	}
	t[vsName("Schedules")] = func(ex *Exec, fn *ssa.Function, a []Value) Value {
		ex.noGuard("vs.Schedules")
		n := a[0].(*smt.Term)
		if !n.IsConst() {
			panic(ex.unsupported("vs.Schedules needs a concrete preemption bound"))
		}
		ex.explore = true
		ex.preemptLeft = int(n.Val)
		return nil
	}
	t[vsName("Join")] = func(ex *Exec, fn *ssa.Function, a []Value) Value {
		ex.noGuard("vs.Join")
		if ex.cur != nil {
			panic(ex.unsupported("vs.Join called from a goroutine"))
		}
		ex.schedule(nil)
		return nil
	}
	t[vsName("Yield")] = func(ex *Exec, fn *ssa.Function, a []Value) Value {
		ex.noGuard("vs.Yield")
		if ex.cur != nil {
			ex.yieldThread(nil)
		} else {
			ex.schedule(func() bool { return true })
		}
		return nil
	}
	t[vsName("Parked")] = func(ex *Exec, fn *ssa.Function, a []Value) Value {
		return ex.intConst(int64(len(ex.threads)))
	}
	t[vsName("Trace")] = func(ex *Exec, fn *ssa.Function, a []Value) Value {
		if v, ok := a[1].(*smt.Term); ok {
			ex.traces = append(ex.traces, traceRec{ex.argStr(a[0]), v})
		}
		return nil
	}
	t[vsName("TraceBool")] = t[vsName("Trace")]
	t[vsName("Symbolic")] = func(ex *Exec, fn *ssa.Function, a []Value) Value { return ex.ctx.True }
	t[vsName("IntRange")] = func(ex *Exec, fn *ssa.Function, a []Value) Value {
		v := ex.input(ex.argStr(a[0]), 64)
		lo, hi := a[1].(*smt.Term), a[2].(*smt.Term)
		ex.assume(ex.ctx.And(ex.ctx.SLE(lo, v), ex.ctx.SLE(v, hi)))
		return v
	}
	t[vsName("Choice")] = func(ex *Exec, fn *ssa.Function, a []Value) Value {
		name := ex.argStr(a[0])
		n := a[1].(*smt.Term)
		if fv, ok := ex.cfg.Fixed[name]; ok {
			return ex.intConst(int64(fv))
		}
		if _, exists := ex.inputSet[name]; !exists && n.IsConst() && ex.cfg.Inputs == nil && n.Val > 0 {
			// a fresh input constrained only by its range: fork over the range without the solver
			ex.noGuard("vs.Choice")
			v := ex.input(name, 64)
			k := ex.Choose(int(n.Val))
			ex.assumeTerm(ex.ctx.Eq(v, ex.intConst(int64(k))))
			return ex.intConst(int64(k))
		}
		v := ex.input(name, 64)
		ex.assume(ex.ctx.ULT(v, n))
		return ex.intConst(int64(ex.Concretize(v, 4096)))
	}
	t[vsName("Bytes")] = func(ex *Exec, fn *ssa.Function, a []Value) Value {
		name := ex.argStr(a[0])
		n := int(ex.argInt(a[1]))
		ts := make([]*smt.Term, n)
		for i := range ts {
			ts[i] = ex.input(fmt.Sprintf("%s[%d]", name, i), 8)
		}
		return ex.bytesSlice(ts)
	}
	t[vsName("String")] = func(ex *Exec, fn *ssa.Function, a []Value) Value {
		name := ex.argStr(a[0])
		n := int(ex.argInt(a[1]))
		ts := make([]*smt.Term, n)
		for i := range ts {
			ts[i] = ex.input(fmt.Sprintf("%s[%d]", name, i), 8)
		}
		return StrV{B: ts}
	}
	t[vsName("Assume")] = func(ex *Exec, fn *ssa.Function, a []Value) Value {
		ex.stats.Assumes++
		ex.assume(a[0].(*smt.Term))
		return nil
	}
	t[vsName("Assert")] = func(ex *Exec, fn *ssa.Function, a []Value) Value {
		ex.Assert(ex.argStr(a[0]), a[1].(*smt.Term))
		return nil
	}
	t[vsName("Reach")] = func(ex *Exec, fn *ssa.Function, a []Value) Value {
		ex.stats.Reached[ex.harness+"/"+ex.argStr(a[0])]++
		return nil
	}
	t[vsName("Note")] = func(ex *Exec, fn *ssa.Function, a []Value) Value {
		if len(ex.notes) < 32 {
			ex.notes = append(ex.notes, ex.argStr(a[0]))
		}
		return nil
	}
	t[vsName("Concrete")] = func(ex *Exec, fn *ssa.Function, a []Value) Value {
		x := a[0].(*smt.Term)
		return ex.ctx.BV(x.W, ex.Concretize(x, 4096))
	}
	t[vsName("ConcreteU64")] = t[vsName("Concrete")]
	t[vsName("ConcreteByte")] = t[vsName("Concrete")]
	t[vsName("Replace")] = func(ex *Exec, fn *ssa.Function, a []Value) Value {
		ex.noGuard("vs.Replace")
		target := ex.argStr(a[0])
		iv := a[1].(IfaceV)
		fv, ok := iv.V.(*FuncV)
		if !ok || fv == nil {
			panic(ex.unsupported("vs.Replace(%q): not a function", target))
		}
		ex.replaced[target] = fv
		return nil
	}
	t[vsName("Unreplace")] = func(ex *Exec, fn *ssa.Function, a []Value) Value {
		delete(ex.replaced, ex.argStr(a[0]))
		return nil
	}
	uf := func(w int) intrinsic {
		return func(ex *Exec, fn *ssa.Function, a []Value) Value {
			name := ex.argStr(a[0])
			args := ex.variadicTerms(a[1])
			allConst := true
			for _, x := range args {
				if !x.IsConst() {
					allConst = false
				}
			}
			if allConst {
				// an application to concrete arguments is just one more named unknown
				return ex.input(ufAppName(name, args, nil), w)
			}
			t := ex.ctx.UF(name, w, args...)
			ex.ufApps = append(ex.ufApps, ufApp{name: name, args: args, app: t})
			return t
		}
	}
	t[vsName("UFBool")] = uf(0)
	t[vsName("UFU64")] = uf(64)
	t[vsName("Fail")] = func(ex *Exec, fn *ssa.Function, a []Value) Value {
		ex.Assert(ex.argStr(a[0]), ex.ctx.False)
		return nil
	}
	t[vsName("Ite")] = func(ex *Exec, fn *ssa.Function, a []Value) Value {
		return ex.ite(a[0].(*smt.Term), a[1], a[2])
	}
	t[vsName("IteU64")] = t[vsName("Ite")]
	t[vsName("IteBool")] = t[vsName("Ite")]
	t[vsName("Stop")] = func(ex *Exec, fn *ssa.Function, a []Value) Value {
		panic(&pathEnd{kind: "done", msg: "vs.Stop"})
	}

	addBytealg(t)
	addSync(t)
	addMisc(t)
	for _, f := range extraIntrinsics {
		f(t)
	}
	return t
}

func (ex *Exec) variadicTerms(v Value) []*smt.Term {
	s, ok := v.(SliceV)
	if !ok || s.Arr == nil {
		return nil
	}
	n := int(ex.Concretize(s.Len, 64))
	out := make([]*smt.Term, n)
	for i := range out {
		out[i] = ex.sliceElem(s, i).(*smt.Term)
	}
	return out
}

func (ex *Exec) assume(c *smt.Term) {
	if c.IsTrue() {
		return
	}
	ex.noGuard("assume")
	if c.IsFalse() {
		panic(&pathEnd{kind: "infeasible", msg: "assume(false)"})
	}
	r := ex.feasible(c)
	if r == smt.Unsat {
		panic(&pathEnd{kind: "infeasible", msg: "assume"})
	}
	if r == smt.Unknown {
		ex.stats.SolverUnknown++
	}
	ex.assumeTerm(c)
}

func addBytealg(t map[string]intrinsic) {
	t["internal/bytealg.IndexByte"] = func(ex *Exec, fn *ssa.Function, a []Value) Value {
		return ex.intConst(ex.indexByte(ex.toBytes(a[0]), a[1].(*smt.Term)))
	}
	t["internal/bytealg.IndexByteString"] = t["internal/bytealg.IndexByte"]
	t["internal/bytealg.LastIndexByte"] = func(ex *Exec, fn *ssa.Function, a []Value) Value {
		s := ex.toBytes(a[0])
		for i := len(s) - 1; i >= 0; i-- {
			if ex.Branch(ex.ctx.Eq(s[i], a[1].(*smt.Term))) {
				return ex.intConst(int64(i))
			}
		}
		return ex.intConst(-1)
	}
	t["internal/bytealg.LastIndexByteString"] = t["internal/bytealg.LastIndexByte"]
	t["internal/bytealg.Index"] = func(ex *Exec, fn *ssa.Function, a []Value) Value {
		return ex.intConst(ex.indexSeq(ex.toBytes(a[0]), ex.toBytes(a[1])))
	}
	t["internal/bytealg.IndexString"] = t["internal/bytealg.Index"]
	t["internal/bytealg.Count"] = func(ex *Exec, fn *ssa.Function, a []Value) Value {
		s := ex.toBytes(a[0])
		sum := ex.intConst(0)
		for _, x := range s {
			sum = ex.ctx.Add(sum, ex.ctx.BoolToBV(ex.ctx.Eq(x, a[1].(*smt.Term)), 64))
		}
		return sum
	}
	t["internal/bytealg.CountString"] = t["internal/bytealg.Count"]
	t["internal/bytealg.Equal"] = func(ex *Exec, fn *ssa.Function, a []Value) Value {
		return ex.strEq(StrV{ex.toBytes(a[0])}, StrV{ex.toBytes(a[1])})
	}
	t["bytes.Equal"] = t["internal/bytealg.Equal"]
	t["internal/bytealg.Compare"] = func(ex *Exec, fn *ssa.Function, a []Value) Value {
		x, y := StrV{ex.toBytes(a[0])}, StrV{ex.toBytes(a[1])}
		c := ex.ctx
		return c.Ite(ex.strEq(x, y), c.BV(64, 0), c.Ite(ex.strLess(x, y, false), c.BV(64, ^uint64(0)), c.BV(64, 1)))
	}
	t["internal/bytealg.CompareString"] = t["internal/bytealg.Compare"]
	t["internal/bytealg.MakeNoZero"] = func(ex *Exec, fn *ssa.Function, a []Value) Value {
		n := int(ex.Concretize(a[0].(*smt.Term), 64))
		return ex.bytesSlice(make0(ex, n))
	}
	t["internal/stringslite.Index"] = func(ex *Exec, fn *ssa.Function, a []Value) Value {
		return ex.intConst(ex.indexSeq(ex.toBytes(a[0]), ex.toBytes(a[1])))
	}
	t["strings.Index"] = t["internal/stringslite.Index"]
	t["bytes.Index"] = t["internal/stringslite.Index"]
	t["internal/stringslite.IndexByte"] = t["internal/bytealg.IndexByte"]
	t["strings.IndexByte"] = t["internal/bytealg.IndexByte"]
	t["bytes.IndexByte"] = t["internal/bytealg.IndexByte"]
	t["strings.Contains"] = func(ex *Exec, fn *ssa.Function, a []Value) Value {
		return ex.containsTerm(ex.toBytes(a[0]), ex.toBytes(a[1]))
	}
	t["bytes.Contains"] = t["strings.Contains"]
	t["strings.HasPrefix"] = func(ex *Exec, fn *ssa.Function, a []Value) Value {
		s, p := ex.toBytes(a[0]), ex.toBytes(a[1])
		if len(p) > len(s) {
			return ex.ctx.False
		}
		return ex.strEq(StrV{s[:len(p)]}, StrV{p})
	}
	t["internal/stringslite.HasPrefix"] = t["strings.HasPrefix"]
	t["bytes.HasPrefix"] = t["strings.HasPrefix"]
	t["strings.HasSuffix"] = func(ex *Exec, fn *ssa.Function, a []Value) Value {
		s, p := ex.toBytes(a[0]), ex.toBytes(a[1])
		if len(p) > len(s) {
			return ex.ctx.False
		}
		return ex.strEq(StrV{s[len(s)-len(p):]}, StrV{p})
	}
	t["internal/stringslite.HasSuffix"] = t["strings.HasSuffix"]
	t["bytes.HasSuffix"] = t["strings.HasSuffix"]
}

func make0(ex *Exec, n int) []*smt.Term {
	out := make([]*smt.Term, n)
	z := ex.byteConst(0)
	for i := range out {
		out[i] = z
	}
	return out
}

func (ex *Exec) containsTerm(s, sep []*smt.Term) *smt.Term {
	if len(sep) == 0 {
		return ex.ctx.True
	}
	var alts []*smt.Term
	for i := 0; i+len(sep) <= len(s); i++ {
		cs := make([]*smt.Term, len(sep))
		for j := range sep {
			cs[j] = ex.ctx.Eq(s[i+j], sep[j])
		}
		alts = append(alts, ex.ctx.And(cs...))
	}
	return ex.ctx.Or(alts...)
}

// ---------- sync / atomic ----------

func (ex *Exec) cellOf(v Value) *Cell {
	p, ok := v.(PtrV)
	if !ok || p.C == nil {
		panic(ex.rtPanic("nil pointer dereference (atomic/sync receiver)"))
	}
	return ex.ptrCell(p)
}

func addSync(t map[string]intrinsic) {
	load := func(ex *Exec, fn *ssa.Function, a []Value) Value { return ex.loadPtr(a[0]) }
	store := func(ex *Exec, fn *ssa.Function, a []Value) Value { ex.storePtr(a[0], a[1]); return nil }
	add := func(ex *Exec, fn *ssa.Function, a []Value) Value {
		n := ex.ctx.Add(ex.loadPtr(a[0]).(*smt.Term), a[1].(*smt.Term))
		ex.storePtr(a[0], n)
		return n
	}
	swap := func(ex *Exec, fn *ssa.Function, a []Value) Value {
		old := ex.loadPtr(a[0])
		ex.storePtr(a[0], a[1])
		return old
	}
	cas := func(ex *Exec, fn *ssa.Function, a []Value) Value {
		old := ex.loadPtr(a[0])
		var eq *smt.Term
		switch o := old.(type) {
		case *smt.Term:
			eq = ex.ctx.Eq(o, a[1].(*smt.Term))
		case PtrV:
			eq = ex.eq(o, a[1], nil)
		default:
			panic(ex.unsupported("CAS on %T", old))
		}
		if ex.Branch(eq) {
			ex.storePtr(a[0], a[2])
			return ex.ctx.True
		}
		return ex.ctx.False
	}
	and := func(ex *Exec, fn *ssa.Function, a []Value) Value {
		old := ex.loadPtr(a[0]).(*smt.Term)
		ex.storePtr(a[0], ex.ctx.BAnd(old, a[1].(*smt.Term)))
		return old
	}
	or := func(ex *Exec, fn *ssa.Function, a []Value) Value {
		old := ex.loadPtr(a[0]).(*smt.Term)
		ex.storePtr(a[0], ex.ctx.BOr(old, a[1].(*smt.Term)))
		return old
	}
	pp := func(h intrinsic) intrinsic {
		return func(ex *Exec, fn *ssa.Function, a []Value) Value { ex.preemptPoint(); return h(ex, fn, a) }
	}
	load, store, add, swap, cas, and, or = pp(load), pp(store), pp(add), pp(swap), pp(cas), pp(and), pp(or)
	for _, pk := range []string{"sync/atomic.", "internal/runtime/atomic."} {
		for _, ty := range []string{"Int32", "Int64", "Uint32", "Uint64", "Uintptr", "Pointer"} {
			t[pk+"Load"+ty] = load
			t[pk+"Store"+ty] = store
			t[pk+"Add"+ty] = add
			t[pk+"Swap"+ty] = swap
			t[pk+"CompareAndSwap"+ty] = cas
			t[pk+"And"+ty] = and
			t[pk+"Or"+ty] = or
		}
	}
	// atomic.Value: keep the interface in a ghost cell keyed by the receiver
	t["(*sync/atomic.Value).Load"] = func(ex *Exec, fn *ssa.Function, a []Value) Value {
		c := ex.cellOf(a[0])
		if v, ok := ex.ghost[fmt.Sprintf("av:%d", c.id)]; ok {
			return v
		}
		return IfaceV{}
	}
	t["(*sync/atomic.Value).Store"] = func(ex *Exec, fn *ssa.Function, a []Value) Value {
		ex.noGuard("ghost state")
		c := ex.cellOf(a[0])
		ex.ghost[fmt.Sprintf("av:%d", c.id)] = a[1]
		return nil
	}
	t["(*sync/atomic.Value).Swap"] = func(ex *Exec, fn *ssa.Function, a []Value) Value {
		ex.noGuard("ghost state")
		c := ex.cellOf(a[0])
		k := fmt.Sprintf("av:%d", c.id)
		old, ok := ex.ghost[k]
		ex.ghost[k] = a[1]
		if !ok {
			return IfaceV{}
		}
		return old
	}
	t["(*sync/atomic.Value).CompareAndSwap"] = func(ex *Exec, fn *ssa.Function, a []Value) Value {
		ex.noGuard("ghost state")
		c := ex.cellOf(a[0])
		k := fmt.Sprintf("av:%d", c.id)
		old, ok := ex.ghost[k]
		if !ok {
			old = IfaceV{}
		}
		if ex.Branch(ex.eq(old, a[1], nil)) {
			ex.ghost[k] = a[2]
			return ex.ctx.True
		}
		return ex.ctx.False
	}
	// Mutexes: lock-state cell, double lock is reported.
	lockState := func(ex *Exec, a []Value) (string, int) {
		ex.noGuard("mutex operation")
		c := ex.cellOf(a[0])
		k := fmt.Sprintf("mu:%d", c.id)
		v, _ := ex.ghost[k].(int)
		return k, v
	}
	t["(*sync.Mutex).Lock"] = func(ex *Exec, fn *ssa.Function, a []Value) Value {
		ex.preemptPoint()
		k, v := lockState(ex, a)
		if v != 0 {
			ex.block(func() bool { _, v := lockState(ex, a); return v == 0 }, "sync.Mutex.Lock")
		}
		ex.ghost[k] = -1
		return nil
	}
	t["(*sync.Mutex).TryLock"] = func(ex *Exec, fn *ssa.Function, a []Value) Value {
		k, v := lockState(ex, a)
		if v != 0 {
			return ex.ctx.False
		}
		ex.ghost[k] = -1
		return ex.ctx.True
	}
	t["(*sync.Mutex).Unlock"] = func(ex *Exec, fn *ssa.Function, a []Value) Value {
		k, v := lockState(ex, a)
		if v != -1 {
			panic(&goPanic{runtime: "sync: unlock of unlocked mutex", where: ex.where(), val: IfaceV{T: types.Typ[types.String], V: ex.mkStr("sync: unlock of unlocked mutex")}})
		}
		ex.ghost[k] = 0
		return nil
	}
	t["(*sync.RWMutex).Lock"] = func(ex *Exec, fn *ssa.Function, a []Value) Value {
		ex.preemptPoint()
		k, v := lockState(ex, a)
		if v != 0 {
			ex.block(func() bool { _, v := lockState(ex, a); return v == 0 }, "sync.RWMutex.Lock")
		}
		ex.ghost[k] = -1
		return nil
	}
	t["(*sync.RWMutex).Unlock"] = func(ex *Exec, fn *ssa.Function, a []Value) Value {
		k, v := lockState(ex, a)
		if v != -1 {
			panic(&goPanic{runtime: "sync: Unlock of unlocked RWMutex", where: ex.where(), val: IfaceV{T: types.Typ[types.String], V: ex.mkStr("sync: Unlock of unlocked RWMutex")}})
		}
		ex.ghost[k] = 0
		return nil
	}
	t["(*sync.RWMutex).RLock"] = func(ex *Exec, fn *ssa.Function, a []Value) Value {
		ex.preemptPoint()
		k, v := lockState(ex, a)
		if v < 0 {
			ex.block(func() bool { _, v := lockState(ex, a); return v >= 0 }, "sync.RWMutex.RLock")
			_, v = lockState(ex, a)
		}
		ex.ghost[k] = v + 1
		return nil
	}
	t["(*sync.RWMutex).RUnlock"] = func(ex *Exec, fn *ssa.Function, a []Value) Value {
		k, v := lockState(ex, a)
		if v <= 0 {
			panic(&goPanic{runtime: "sync: RUnlock of unlocked RWMutex", where: ex.where(), val: IfaceV{T: types.Typ[types.String], V: ex.mkStr("sync: RUnlock of unlocked RWMutex")}})
		}
		ex.ghost[k] = v - 1
		return nil
	}
	t["(*sync.RWMutex).TryLock"] = t["(*sync.Mutex).TryLock"]
	t["(*sync.Once).Do"] = func(ex *Exec, fn *ssa.Function, a []Value) Value {
		ex.noGuard("ghost state")
		c := ex.cellOf(a[0])
		k := fmt.Sprintf("once:%d", c.id)
		if _, done := ex.ghost[k]; done {
			return nil
		}
		ex.ghost[k] = true
		ex.call(a[1].(*FuncV), nil)
		return nil
	}
	wgKey := func(ex *Exec, a []Value) string {
		ex.noGuard("ghost state")
		return fmt.Sprintf("wg:%d", ex.cellOf(a[0]).id)
	}
	t["(*sync.WaitGroup).Add"] = func(ex *Exec, fn *ssa.Function, a []Value) Value {
		k := wgKey(ex, a)
		n, _ := ex.ghost[k].(int64)
		dt, ok := a[1].(*smt.Term)
		if !ok || !dt.IsConst() {
			panic(ex.unsupported("sync.WaitGroup.Add with a symbolic delta"))
		}
		ex.ghost[k] = n + int64(dt.Val)
		return nil
	}
	t["(*sync.WaitGroup).Done"] = func(ex *Exec, fn *ssa.Function, a []Value) Value {
		k := wgKey(ex, a)
		n, _ := ex.ghost[k].(int64)
		ex.ghost[k] = n - 1
		return nil
	}
	t["(*sync.WaitGroup).Wait"] = func(ex *Exec, fn *ssa.Function, a []Value) Value {
		k := wgKey(ex, a)
		if ex.cur == nil && !ex.explore {
			ex.runGoroutines()
		}
		ex.block(func() bool { n, _ := ex.ghost[k].(int64); return n <= 0 }, "sync.WaitGroup.Wait")
		return nil
	}
	t["(*sync.WaitGroup).Go"] = func(ex *Exec, fn *ssa.Function, a []Value) Value {
		k := wgKey(ex, a)
		n, _ := ex.ghost[k].(int64)
		ex.ghost[k] = n + 1
		f := a[1].(*FuncV)
		recv := a[0]
		done := t["(*sync.WaitGroup).Done"]
		ex.spawn(&FuncV{Builtin: "wg.Go", Native: func(ex *Exec, _ []Value) Value {
			ex.call(f, nil)
			done(ex, nil, []Value{recv})
			return nil
		}}, nil)
		return nil
	}
	t["(*sync.Pool).Get"] = func(ex *Exec, fn *ssa.Function, a []Value) Value {
		ex.noGuard("ghost state")
		c := ex.cellOf(a[0])
		k := fmt.Sprintf("pool:%d", c.id)
		if bag, ok := ex.ghost[k].([]Value); ok && len(bag) > 0 {
			v := bag[len(bag)-1]
			ex.ghost[k] = bag[:len(bag)-1]
			return v
		}
		// field New
		st := c.T.Underlying().(*types.Struct)
		for i := 0; i < st.NumFields(); i++ {
			if st.Field(i).Name() == "New" {
				nf, _ := ex.load(ex.kid(c, i)).(*FuncV)
				if nf != nil {
					return ex.call(nf, nil)
				}
			}
		}
		return IfaceV{}
	}
	t["(*sync.Pool).Put"] = func(ex *Exec, fn *ssa.Function, a []Value) Value {
		ex.noGuard("ghost state")
		c := ex.cellOf(a[0])
		k := fmt.Sprintf("pool:%d", c.id)
		bag, _ := ex.ghost[k].([]Value)
		ex.ghost[k] = append(bag, a[1])
		return nil
	}
	// sync.Map as an engine map keyed by receiver cell
	smap := func(ex *Exec, a []Value) *MapObj {
		ex.noGuard("sync.Map operation")
		ex.preemptPoint()
		c := ex.cellOf(a[0])
		k := fmt.Sprintf("smap:%d", c.id)
		if m, ok := ex.ghost[k].(*MapObj); ok {
			return m
		}
		anyT := types.NewInterfaceType(nil, nil)
		ex.objSeq++
		m := &MapObj{T: types.NewMap(anyT, anyT), id: ex.objSeq}
		ex.ghost[k] = m
		return m
	}
	t["(*sync.Map).Load"] = func(ex *Exec, fn *ssa.Function, a []Value) Value {
		if e := ex.mapFind(smap(ex, a), a[1]); e != nil {
			return AggV{e.V, ex.ctx.True}
		}
		return AggV{IfaceV{}, ex.ctx.False}
	}
	t["(*sync.Map).Store"] = func(ex *Exec, fn *ssa.Function, a []Value) Value {
		ex.mapSet(smap(ex, a), a[1], a[2])
		return nil
	}
	t["(*sync.Map).LoadOrStore"] = func(ex *Exec, fn *ssa.Function, a []Value) Value {
		m := smap(ex, a)
		if e := ex.mapFind(m, a[1]); e != nil {
			return AggV{e.V, ex.ctx.True}
		}
		m.Entries = append(m.Entries, &mapEntry{K: a[1], V: a[2], Live: true})
		return AggV{a[2], ex.ctx.False}
	}
	t["(*sync.Map).LoadAndDelete"] = func(ex *Exec, fn *ssa.Function, a []Value) Value {
		m := smap(ex, a)
		if e := ex.mapFind(m, a[1]); e != nil {
			v := e.V
			ex.mapDelete(m, a[1])
			return AggV{v, ex.ctx.True}
		}
		return AggV{IfaceV{}, ex.ctx.False}
	}
	t["(*sync.Map).Delete"] = func(ex *Exec, fn *ssa.Function, a []Value) Value {
		ex.mapDelete(smap(ex, a), a[1])
		return nil
	}
	t["(*sync.Map).Swap"] = func(ex *Exec, fn *ssa.Function, a []Value) Value {
		m := smap(ex, a)
		if e := ex.mapFind(m, a[1]); e != nil {
			old := e.V
			e.V = a[2]
			return AggV{old, ex.ctx.True}
		}
		m.Entries = append(m.Entries, &mapEntry{K: a[1], V: a[2], Live: true})
		return AggV{IfaceV{}, ex.ctx.False}
	}
	t["(*sync.Map).CompareAndDelete"] = func(ex *Exec, fn *ssa.Function, a []Value) Value {
		m := smap(ex, a)
		if e := ex.mapFind(m, a[1]); e != nil {
			if ex.Branch(ex.eq(e.V, a[2], nil)) {
				ex.mapDelete(m, a[1])
				return ex.ctx.True
			}
		}
		return ex.ctx.False
	}
	t["(*sync.Map).CompareAndSwap"] = func(ex *Exec, fn *ssa.Function, a []Value) Value {
		m := smap(ex, a)
		if e := ex.mapFind(m, a[1]); e != nil {
			if ex.Branch(ex.eq(e.V, a[2], nil)) {
				e.V = a[3]
				return ex.ctx.True
			}
		}
		return ex.ctx.False
	}
	t["(*sync.Map).Range"] = func(ex *Exec, fn *ssa.Function, a []Value) Value {
		m := smap(ex, a)
		ents := append([]*mapEntry(nil), m.Entries...)
		for _, e := range ents {
			if !e.Live {
				continue
			}
			r := ex.call(a[1].(*FuncV), []Value{e.K, e.V}).(*smt.Term)
			if !ex.Branch(r) {
				break
			}
		}
		return nil
	}
	t["(*sync.Map).Clear"] = func(ex *Exec, fn *ssa.Function, a []Value) Value {
		smap(ex, a).Entries = nil
		return nil
	}
}

type ufApp struct {
	name string
	args []*smt.Term
	app  *smt.Term
}

func ufAppName(name string, args []*smt.Term, vals []uint64) string {
	var sb strings.Builder
	sb.WriteString(name + "(")
	for i, a := range args {
		if i > 0 {
			sb.WriteByte(',')
		}
		v := a.Val
		if vals != nil {
			v = vals[i]
		}
		sb.WriteString(fmt.Sprintf("%d", v))
	}
	sb.WriteString(")")
	return sb.String()
}

type traceRec struct {
	name string
	t    *smt.Term
}
