package gosym

import (
	"golang.org/x/tools/go/ssa"
)

// deepCopy: structural copy of a value graph (what reflection-based mohae/deepcopy does):
// pointers, slices, maps and interfaces are copied recursively, sharing is preserved.
type copyMemo struct {
	cells map[*Cell]*Cell
	maps  map[*MapObj]*MapObj
}

func (ex *Exec) deepCopy(v Value, m *copyMemo) Value {
	switch x := v.(type) {
	case PtrV:
		if x.C == nil {
			return x
		}
		return PtrV{C: ex.copyCell(ex.ptrCell(x), m)}
	case SliceV:
		if x.Arr == nil {
			return x
		}
		return SliceV{Arr: ex.copyCell(x.Arr, m), Off: x.Off, Len: x.Len, Cap: x.Cap}
	case *MapObj:
		if x == nil {
			return x
		}
		if c, ok := m.maps[x]; ok {
			return c
		}
		ex.objSeq++
		c := &MapObj{T: x.T, id: ex.objSeq}
		m.maps[x] = c
		for _, e := range x.Entries {
			if e.Live {
				c.Entries = append(c.Entries, &mapEntry{K: ex.deepCopy(e.K, m), V: ex.deepCopy(e.V, m), Live: true})
			}
		}
		return c
	case IfaceV:
		if x.T == nil {
			return x
		}
		return IfaceV{T: x.T, V: ex.deepCopy(x.V, m)}
	case AggV:
		r := make(AggV, len(x))
		for i := range x {
			r[i] = ex.deepCopy(x[i], m)
		}
		return r
	}
	return v
}

func (ex *Exec) copyCell(c *Cell, m *copyMemo) *Cell {
	if n, ok := m.cells[c]; ok {
		return n
	}
	// copy the whole top-level object so that interior pointers stay consistent
	root := c
	var path []int
	for root.Parent != nil {
		path = append(path, root.Idx)
		root = root.Parent
	}
	if n, ok := m.cells[root]; !ok {
		n = ex.newCell(root.T)
		ex.mapCells(root, n, m)
		ex.fillCopy(root, n, m)
	}
	n := m.cells[root]
	for i := len(path) - 1; i >= 0; i-- {
		n = ex.kid(n, path[i])
	}
	return n
}

func (ex *Exec) mapCells(src, dst *Cell, m *copyMemo) {
	m.cells[src] = dst
	for i, k := range src.Kids {
		if k != nil {
			ex.mapCells(k, ex.kid(dst, i), m)
		}
	}
}

func (ex *Exec) fillCopy(src, dst *Cell, m *copyMemo) {
	if src.Kids == nil {
		dst.V = ex.deepCopy(src.V, m)
		return
	}
	for i, k := range src.Kids {
		if k != nil {
			ex.fillCopy(k, ex.kid(dst, i), m)
		}
	}
}

func init() {
	extraIntrinsics = append(extraIntrinsics, func(t map[string]intrinsic) {
		t["github.com/mohae/deepcopy.Copy"] = func(ex *Exec, fn *ssa.Function, a []Value) Value {
			return ex.deepCopy(a[0], &copyMemo{cells: map[*Cell]*Cell{}, maps: map[*MapObj]*MapObj{}})
		}
	})
}
