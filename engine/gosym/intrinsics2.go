package gosym

import (
	"fmt"
	"go/types"
	"strings"

	"golang.org/x/tools/go/ssa"
	"verif/engine/smt"
)

var errorType = types.Universe.Lookup("error").Type()

// fmtArg renders a concrete-ish value for message strings.
func (ex *Exec) fmtArg(v Value) string {
	switch x := v.(type) {
	case *smt.Term:
		if x.IsConst() {
			if x.W == 0 {
				return fmt.Sprint(x.Val == 1)
			}
			return fmt.Sprint(x.SVal())
		}
		return "?"
	case StrV:
		if s, ok := ex.concreteStr(x); ok {
			return s
		}
		return "?"
	case IfaceV:
		if x.T == nil {
			return "<nil>"
		}
		return ex.fmtArg(x.V)
	case FloatV:
		return fmt.Sprint(float64(x))
	}
	return "?"
}

func (ex *Exec) sprintf(format string, args []Value) string {
	var sb strings.Builder
	ai := 0
	for i := 0; i < len(format); i++ {
		ch := format[i]
		if ch != '%' {
			sb.WriteByte(ch)
			continue
		}
		j := i + 1
		for j < len(format) && strings.IndexByte("+-# 0123456789.*[]", format[j]) >= 0 {
			j++
		}
		if j >= len(format) {
			break
		}
		if format[j] == '%' {
			sb.WriteByte('%')
		} else if ai < len(args) {
			sb.WriteString(ex.fmtArg(args[ai]))
			ai++
		}
		i = j
	}
	return sb.String()
}

func (ex *Exec) ifaceSliceArgs(v Value) []Value {
	s, ok := v.(SliceV)
	if !ok || s.Arr == nil {
		return nil
	}
	n := int(ex.Concretize(s.Len, 64))
	out := make([]Value, n)
	for i := range out {
		out[i] = ex.sliceElem(s, i)
	}
	return out
}

// errUnwrap calls Unwrap() error on the dynamic value if it has one.
func (ex *Exec) errMethod(e IfaceV, name string) *ssa.Function {
	if e.T == nil {
		return nil
	}
	ms := ex.prog.MethodSets.MethodSet(e.T)
	for i := 0; i < ms.Len(); i++ {
		sel := ms.At(i)
		if sel.Obj().Name() == name {
			return ex.prog.MethodValue(sel)
		}
	}
	return nil
}

func (ex *Exec) errorsIs(err, target IfaceV) *smt.Term {
	c := ex.ctx
	for depth := 0; depth < 16; depth++ {
		if err.T == nil {
			return c.Bool(target.T == nil)
		}
		if target.T != nil && types.Identical(err.T, target.T) && types.Comparable(err.T) {
			q := ex.eq(err.V, target.V, err.T)
			if ex.Branch(q) {
				return c.True
			}
		}
		if m := ex.errMethod(err, "Is"); m != nil && m.Signature.Params().Len() == 1 && m.Signature.Results().Len() == 1 {
			r := ex.call(ex.funcValue(m), []Value{err.V, target}).(*smt.Term)
			if ex.Branch(r) {
				return c.True
			}
		}
		m := ex.errMethod(err, "Unwrap")
		if m == nil {
			return c.False
		}
		res := m.Signature.Results()
		if res.Len() != 1 {
			return c.False
		}
		if types.Identical(res.At(0).Type(), errorType) {
			next, _ := ex.call(ex.funcValue(m), []Value{err.V}).(IfaceV)
			if next.T == nil {
				return c.False
			}
			err = next
			continue
		}
		// Unwrap() []error
		list, ok := ex.call(ex.funcValue(m), []Value{err.V}).(SliceV)
		if !ok || list.Arr == nil {
			return c.False
		}
		n := int(ex.Concretize(list.Len, 16))
		for i := 0; i < n; i++ {
			e := ex.sliceElem(list, i).(IfaceV)
			if ex.Branch(ex.errorsIs(e, target)) {
				return c.True
			}
		}
		return c.False
	}
	panic(&pathEnd{kind: "unwind", msg: "errors.Is chain depth"})
}

func (ex *Exec) errorsAs(err IfaceV, target IfaceV) *smt.Term {
	c := ex.ctx
	if target.T == nil {
		panic(&goPanic{runtime: "errors: target cannot be nil", where: ex.where(), val: IfaceV{T: types.Typ[types.String], V: ex.mkStr("errors: target cannot be nil")}})
	}
	pt, ok := target.T.Underlying().(*types.Pointer)
	if !ok {
		panic(&goPanic{runtime: "errors: target must be a non-nil pointer", where: ex.where(), val: IfaceV{T: types.Typ[types.String], V: ex.mkStr("errors: target must be a non-nil pointer")}})
	}
	want := pt.Elem()
	for depth := 0; depth < 16; depth++ {
		if err.T == nil {
			return c.False
		}
		if it, isI := want.Underlying().(*types.Interface); isI {
			if types.Implements(err.T, it) {
				ex.storePtr(target.V, err)
				return c.True
			}
		} else if types.Identical(err.T, want) {
			ex.storePtr(target.V, err.V)
			return c.True
		}
		if m := ex.errMethod(err, "As"); m != nil && m.Signature.Params().Len() == 1 {
			r := ex.call(ex.funcValue(m), []Value{err.V, target}).(*smt.Term)
			if ex.Branch(r) {
				return c.True
			}
		}
		m := ex.errMethod(err, "Unwrap")
		if m == nil || m.Signature.Results().Len() != 1 {
			return c.False
		}
		if types.Identical(m.Signature.Results().At(0).Type(), errorType) {
			next, _ := ex.call(ex.funcValue(m), []Value{err.V}).(IfaceV)
			err = next
			continue
		}
		list, ok := ex.call(ex.funcValue(m), []Value{err.V}).(SliceV)
		if !ok || list.Arr == nil {
			return c.False
		}
		n := int(ex.Concretize(list.Len, 16))
		for i := 0; i < n; i++ {
			if ex.Branch(ex.errorsAs(ex.sliceElem(list, i).(IfaceV), target)) {
				return c.True
			}
		}
		return c.False
	}
	panic(&pathEnd{kind: "unwind", msg: "errors.As chain depth"})
}

// sortSlice: stable insertion sort driven by the user's less(i, j).
func (ex *Exec) sortSlice(sv Value, less *FuncV) {
	iv, ok := sv.(IfaceV)
	if !ok {
		panic(ex.unsupported("sort.Slice on %T", sv))
	}
	s, ok := iv.V.(SliceV)
	if !ok || s.Arr == nil {
		return
	}
	n := int(ex.Concretize(s.Len, 64))
	swap := func(i, j int) {
		pi, pj := ex.sliceElemPtr(s, i), ex.sliceElemPtr(s, j)
		vi, vj := ex.loadPtr(pi), ex.loadPtr(pj)
		ex.storePtr(pi, vj)
		ex.storePtr(pj, vi)
	}
	for i := 1; i < n; i++ {
		for j := i; j > 0; j-- {
			r := ex.call(less, []Value{ex.intConst(int64(j)), ex.intConst(int64(j - 1))}).(*smt.Term)
			if !ex.Branch(r) {
				break
			}
			swap(j, j-1)
		}
	}
}

func (ex *Exec) valueKey(v Value) string {
	switch x := v.(type) {
	case *smt.Term:
		if !x.IsConst() {
			panic(ex.unsupported("unique.Make on symbolic value"))
		}
		return fmt.Sprintf("%d:%x", x.W, x.Val)
	case StrV:
		s, ok := ex.concreteStr(x)
		if !ok {
			panic(ex.unsupported("unique.Make on symbolic string"))
		}
		return fmt.Sprintf("%q", s)
	case AggV:
		var sb strings.Builder
		sb.WriteByte('{')
		for _, e := range x {
			sb.WriteString(ex.valueKey(e))
			sb.WriteByte(',')
		}
		sb.WriteByte('}')
		return sb.String()
	}
	panic(ex.unsupported("unique.Make on %T", v))
}

func (ex *Exec) nextNow() *smt.Term {
	if ex.initMode > 0 {
		return ex.intConst(1)
	}
	if ex.cfg.Inputs == nil && ex.world.FixedClock {
		return ex.intConst(1 << 40)
	}
	ex.nowSeq++
	t := ex.input(fmt.Sprintf("clock#%d", ex.nowSeq), 64)
	c := ex.ctx
	lo := c.BV(64, 1<<20)
	if ex.lastNow != nil {
		lo = ex.lastNow
	}
	ex.assume(c.And(c.SLE(lo, t), c.SLT(t, c.BV(64, 1<<61))))
	ex.lastNow = t
	return t
}

func addMisc(t map[string]intrinsic) {
	t["fmt.Sprintf"] = func(ex *Exec, fn *ssa.Function, a []Value) Value {
		f, ok := ex.concreteStr(a[0].(StrV))
		if !ok {
			return ex.mkStr("?")
		}
		return ex.mkStr(ex.sprintf(f, ex.ifaceSliceArgs(a[1])))
	}
	t["fmt.Sprint"] = func(ex *Exec, fn *ssa.Function, a []Value) Value {
		var sb strings.Builder
		for _, v := range ex.ifaceSliceArgs(a[0]) {
			sb.WriteString(ex.fmtArg(v))
		}
		return ex.mkStr(sb.String())
	}
	t["fmt.Sprintln"] = t["fmt.Sprint"]
	t["fmt.Errorf"] = func(ex *Exec, fn *ssa.Function, a []Value) Value {
		f, _ := ex.concreteStr(a[0].(StrV))
		args := ex.ifaceSliceArgs(a[1])
		msg := ex.sprintf(f, args)
		if strings.Contains(f, "%w") {
			for _, v := range args {
				iv, ok := v.(IfaceV)
				if ok && iv.T != nil && types.Implements(iv.T, errorType.Underlying().(*types.Interface)) {
					p := ex.prog.ImportedPackage("fmt")
					if p == nil {
						break
					}
					we := p.Type("wrapError").Type()
					c := ex.newCell(we)
					ex.store(ex.kid(c, 0), ex.mkStr(msg))
					ex.store(ex.kid(c, 1), iv)
					return IfaceV{T: types.NewPointer(we), V: PtrV{C: c}}
				}
			}
		}
		return ex.newError(msg)
	}
	t["errors.Is"] = func(ex *Exec, fn *ssa.Function, a []Value) Value {
		return ex.errorsIs(a[0].(IfaceV), a[1].(IfaceV))
	}
	t["errors.As"] = func(ex *Exec, fn *ssa.Function, a []Value) Value {
		return ex.errorsAs(a[0].(IfaceV), a[1].(IfaceV))
	}
	t["sort.Slice"] = func(ex *Exec, fn *ssa.Function, a []Value) Value {
		ex.sortSlice(a[0], a[1].(*FuncV))
		return nil
	}
	t["sort.SliceStable"] = t["sort.Slice"]
	t["unique.Make"] = func(ex *Exec, fn *ssa.Function, a []Value) Value {
		k := fn.Signature.Params().At(0).Type().String() + "|" + ex.valueKey(a[0])
		if v, ok := ex.uniq[k]; ok {
			return v
		}
		save := ex.initMode
		ex.initMode = 1 // canonical cells are immutable and shared by all paths
		c := ex.newCell(fn.Signature.Params().At(0).Type())
		ex.store(c, a[0])
		ex.initMode = save
		v := AggV{PtrV{C: c}}
		ex.uniq[k] = v
		return v
	}
	t["internal/abi.NoEscape"] = func(ex *Exec, fn *ssa.Function, a []Value) Value { return a[0] }
	t["internal/abi.Escape"] = func(ex *Exec, fn *ssa.Function, a []Value) Value { return a[0] }
	t["time.now"] = func(ex *Exec, fn *ssa.Function, a []Value) Value {
		return AggV{ex.intConst(1_800_000_000), ex.ctx.BV(32, 0), ex.nextNow()}
	}
	t["time.runtimeNano"] = func(ex *Exec, fn *ssa.Function, a []Value) Value { return ex.nextNow() }
	t["time.runtimeNow"] = t["time.now"]
	t["os.Getenv"] = func(ex *Exec, fn *ssa.Function, a []Value) Value { return StrV{} }
	t["(*internal/godebug.Setting).Value"] = func(ex *Exec, fn *ssa.Function, a []Value) Value { return StrV{} }
	t["(*internal/godebug.Setting).IncNonDefault"] = func(ex *Exec, fn *ssa.Function, a []Value) Value { return nil }
	t["strings.ToLower"] = func(ex *Exec, fn *ssa.Function, a []Value) Value {
		// byte-wise ASCII lowering; non-ASCII bytes fall back to the real code
		s := a[0].(StrV)
		c := ex.ctx
		out := make([]*smt.Term, len(s.B))
		for i, b := range s.B {
			if b.IsConst() && b.Val >= 0x80 {
				return ex.callBody(fn, a)
			}
			if !b.IsConst() {
				if !ex.Branch(c.ULT(b, c.BV(8, 0x80))) {
					return ex.callBody(fn, a)
				}
			}
			isUp := c.And(c.ULE(c.BV(8, 'A'), b), c.ULE(b, c.BV(8, 'Z')))
			out[i] = c.Ite(isUp, c.Add(b, c.BV(8, 32)), b)
		}
		return StrV{B: out}
	}
	t["math/bits.OnesCount64"] = func(ex *Exec, fn *ssa.Function, a []Value) Value { return ex.ctx.PopCount(a[0].(*smt.Term)) }
	t["math/bits.OnesCount32"] = func(ex *Exec, fn *ssa.Function, a []Value) Value {
		return ex.ctx.ZExt(ex.ctx.PopCount(a[0].(*smt.Term)), 64)
	}
	t["math/bits.OnesCount16"] = t["math/bits.OnesCount32"]
	t["math/bits.OnesCount8"] = t["math/bits.OnesCount32"]
	t["math/bits.OnesCount"] = t["math/bits.OnesCount64"]
	tz := func(ex *Exec, fn *ssa.Function, a []Value) Value {
		x := a[0].(*smt.Term)
		c := ex.ctx
		res := c.BV(64, uint64(x.W))
		for i := x.W - 1; i >= 0; i-- {
			res = c.Ite(c.Eq(c.Extract(x, i, i), c.BV(1, 1)), c.BV(64, uint64(i)), res)
		}
		return res
	}
	t["math/bits.TrailingZeros64"] = tz
	t["math/bits.TrailingZeros32"] = tz
	t["math/bits.TrailingZeros16"] = tz
	t["math/bits.TrailingZeros8"] = tz
	t["math/bits.TrailingZeros"] = tz
	ln := func(ex *Exec, fn *ssa.Function, a []Value) Value {
		x := a[0].(*smt.Term)
		c := ex.ctx
		res := c.BV(64, 0)
		for i := 0; i < x.W; i++ {
			res = c.Ite(c.Eq(c.Extract(x, i, i), c.BV(1, 1)), c.BV(64, uint64(i+1)), res)
		}
		return res
	}
	t["math/bits.Len64"] = ln
	t["math/bits.Len32"] = ln
	t["math/bits.Len16"] = ln
	t["math/bits.Len8"] = ln
	t["math/bits.Len"] = ln
	lz := func(ex *Exec, fn *ssa.Function, a []Value) Value {
		x := a[0].(*smt.Term)
		return ex.ctx.Sub(ex.ctx.BV(64, uint64(x.W)), ln(ex, fn, a).(*smt.Term))
	}
	t["math/bits.LeadingZeros64"] = lz
	t["math/bits.LeadingZeros32"] = lz
	t["math/bits.LeadingZeros16"] = lz
	t["math/bits.LeadingZeros8"] = lz
	t["math/bits.LeadingZeros"] = lz
	t["math/bits.Mul64"] = func(ex *Exec, fn *ssa.Function, a []Value) Value {
		c := ex.ctx
		x, y := a[0].(*smt.Term), a[1].(*smt.Term)
		if x.IsConst() && y.IsConst() {
			hi, lo := mul64(x.Val, y.Val)
			return AggV{c.BV(64, hi), c.BV(64, lo)}
		}
		p := c.Mul(c.ZExt(x, 128), c.ZExt(y, 128))
		return AggV{c.Extract(p, 127, 64), c.Extract(p, 63, 0)}
	}
}

func mul64(x, y uint64) (hi, lo uint64) {
	const mask32 = 1<<32 - 1
	x0, x1 := x&mask32, x>>32
	y0, y1 := y&mask32, y>>32
	w0 := x0 * y0
	t := x1*y0 + w0>>32
	w1, w2 := t&mask32, t>>32
	w1 += x0 * y1
	hi = x1*y1 + w2 + w1>>32
	lo = x * y
	return
}

// callBody interprets fn's real body, bypassing its intrinsic.
func (ex *Exec) callBody(fn *ssa.Function, args []Value) Value {
	name := fn.String()
	h := ex.intr[name]
	delete(ex.intr, name)
	defer func() { ex.intr[name] = h }()
	return ex.call(ex.funcValue(fn), args)
}
