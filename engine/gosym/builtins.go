package gosym

import (
	"go/types"
	"unicode/utf8"

	"golang.org/x/tools/go/ssa"
	"verif/engine/smt"
)

func (ex *Exec) builtin(fr *frame, name string, args []Value, cc *ssa.CallCommon) Value {
	c := ex.ctx
	switch name {
	case "len":
		switch x := args[0].(type) {
		case StrV:
			return ex.intConst(int64(len(x.B)))
		case SliceV:
			if x.Arr == nil {
				return ex.intConst(0)
			}
			return x.Len
		case *MapObj:
			if x == nil {
				return ex.intConst(0)
			}
			n := 0
			for _, e := range x.Entries {
				if e.Live {
					n++
				}
			}
			return ex.intConst(int64(n))
		case AggV:
			return ex.intConst(int64(len(x)))
		case PtrV:
			if a, ok := cc.Args[0].Type().Underlying().(*types.Pointer); ok {
				return ex.intConst(a.Elem().Underlying().(*types.Array).Len())
			}
		case *ChanObj:
			if x == nil {
				return ex.intConst(0)
			}
			return ex.intConst(int64(len(x.Buf)))
		}
	case "cap":
		switch x := args[0].(type) {
		case SliceV:
			if x.Arr == nil {
				return ex.intConst(0)
			}
			return x.Cap
		case AggV:
			return ex.intConst(int64(len(x)))
		case *ChanObj:
			if x == nil {
				return ex.intConst(0)
			}
			return ex.intConst(int64(x.Cap))
		case PtrV:
			if a, ok := cc.Args[0].Type().Underlying().(*types.Pointer); ok {
				return ex.intConst(a.Elem().Underlying().(*types.Array).Len())
			}
		}
	case "append":
		return ex.appendOp(args[0].(SliceV), args[1], cc.Args[0].Type())
	case "copy":
		return ex.copyOp(args[0].(SliceV), args[1])
	case "delete":
		m := args[0].(*MapObj)
		if m != nil {
			ex.mapDelete(m, args[1])
		}
		return nil
	case "clear":
		switch x := args[0].(type) {
		case *MapObj:
			if x != nil {
				ex.mapLog(x)
				for _, e := range x.Entries {
					e.Live = false
				}
				x.Entries = nil
			}
		case SliceV:
			if x.Arr != nil {
				n := int(ex.Concretize(x.Len, 256))
				z := ex.zero(x.Arr.elemType())
				for i := 0; i < n; i++ {
					ex.storePtr(ex.sliceElemPtr(x, i), z)
				}
			}
		}
		return nil
	case "close":
		ch := args[0].(*ChanObj)
		if ch == nil {
			panic(ex.rtPanic("close of nil channel"))
		}
		ex.noGuard("close")
		if ch.Closed {
			panic(&goPanic{runtime: "close of closed channel", where: ex.where(), val: IfaceV{T: types.Typ[types.String], V: ex.mkStr("close of closed channel")}})
		}
		ch.Closed = true
		ex.sched()
		return nil
	case "recover":
		return ex.doRecover()
	case "print", "println":
		return nil
	case "min", "max":
		res := args[0]
		for _, a := range args[1:] {
			t := cc.Args[0].Type()
			var lt *smt.Term
			switch x := a.(type) {
			case *smt.Term:
				r := res.(*smt.Term)
				if isSigned(t) {
					lt = c.SLT(x, r)
				} else {
					lt = c.ULT(x, r)
				}
				if name == "max" {
					lt = c.And(c.Not(lt), c.Ne(x, r))
				}
				res = c.Ite(lt, x, r)
			case FloatV:
				r := res.(FloatV)
				if (name == "min" && x < r) || (name == "max" && x > r) {
					res = x
				}
			default:
				panic(ex.unsupported("min/max on %T", a))
			}
		}
		return res
	case "ssa:wrapnilchk":
		if p, ok := args[0].(PtrV); ok && p.C == nil {
			panic(ex.rtPanic("value method called using nil pointer"))
		}
		return args[0]
	case "String": // unsafe.String
		p := args[0].(PtrV)
		n := int(ex.Concretize(args[1].(*smt.Term), 256))
		if n == 0 {
			return StrV{}
		}
		s := ex.ptrToSlice(p, n)
		out := make([]*smt.Term, n)
		for i := range out {
			out[i] = ex.sliceElem(s, i).(*smt.Term)
		}
		return StrV{B: out}
	case "StringData":
		s := args[0].(StrV)
		arr := ex.newArrayCell(types.Typ[types.Uint8], len(s.B))
		for i, b := range s.B {
			ex.kid(arr, i).V = b
		}
		if len(s.B) == 0 {
			return PtrV{}
		}
		return PtrV{C: ex.kid(arr, 0)}
	case "Slice": // unsafe.Slice
		p := args[0].(PtrV)
		n := int(ex.Concretize(ex.toInt64(args[1], cc.Args[1].Type()), 256))
		if p.C == nil {
			return SliceV{}
		}
		return ex.ptrToSlice(p, n)
	case "SliceData":
		s := args[0].(SliceV)
		if s.Arr == nil {
			return PtrV{}
		}
		return ex.sliceElemPtr(s, 0)
	}
	panic(ex.unsupported("builtin %s on %T", name, args))
}

// ptrToSlice views n elements starting at element pointer p as a slice.
func (ex *Exec) ptrToSlice(p PtrV, n int) SliceV {
	c := ex.ptrCell(p)
	if c.Parent == nil {
		// pointer to a standalone variable: one-element view
		if n > 1 {
			panic(ex.unsupported("unsafe slice of %d elements over a scalar", n))
		}
		ex.cellSeq++
		arr := &Cell{T: types.NewArray(c.T, 1), id: ex.cellSeq, age: ex.cellSeq, Kids: []*Cell{c}}
		return SliceV{Arr: arr, Off: ex.intConst(0), Len: ex.intConst(int64(n)), Cap: ex.intConst(1)}
	}
	if _, ok := c.Parent.T.Underlying().(*types.Array); !ok {
		panic(ex.unsupported("unsafe slice over struct field"))
	}
	if c.Idx+n > len(c.Parent.Kids) {
		panic(ex.unsupported("unsafe slice beyond backing array"))
	}
	return SliceV{Arr: c.Parent, Off: ex.intConst(int64(c.Idx)), Len: ex.intConst(int64(n)), Cap: ex.intConst(int64(len(c.Parent.Kids) - c.Idx))}
}

func (ex *Exec) doRecover() Value {
	if len(ex.panics) == 0 {
		return IfaceV{}
	}
	fr := ex.panics[len(ex.panics)-1]
	if fr.panicking == nil {
		return IfaceV{}
	}
	p := fr.panicking
	fr.panicking = nil
	if iv, ok := p.val.(IfaceV); ok {
		return iv
	}
	return IfaceV{T: types.Typ[types.String], V: ex.mkStr("panic")}
}

func (ex *Exec) appendOp(s SliceV, more Value, st types.Type) Value {
	elemT := st.Underlying().(*types.Slice).Elem()
	var add []Value
	switch m := more.(type) {
	case SliceV:
		if m.Arr != nil {
			n := int(ex.Concretize(m.Len, 256))
			for i := 0; i < n; i++ {
				add = append(add, ex.sliceElem(m, i))
			}
		}
	case StrV:
		for _, b := range m.B {
			add = append(add, b)
		}
	default:
		panic(ex.unsupported("append of %T", more))
	}
	if len(add) == 0 {
		return s
	}
	ln, cp, off := 0, 0, 0
	if s.Arr != nil {
		ln = int(ex.Concretize(s.Len, 256))
		cp = int(ex.Concretize(s.Cap, 256))
		off = int(ex.Concretize(s.Off, 256))
	}
	need := ln + len(add)
	if need <= cp {
		for i, v := range add {
			ex.store(ex.kid(s.Arr, off+ln+i), v)
		}
		return SliceV{Arr: s.Arr, Off: s.Off, Len: ex.intConst(int64(need)), Cap: s.Cap}
	}
	ncap := cp * 2
	if ncap < need {
		ncap = need
	}
	if ncap < 4 && need <= 4 {
		ncap = need
	}
	arr := ex.newArrayCell(elemT, ncap)
	for i := 0; i < ln; i++ {
		ex.store(ex.kid(arr, i), ex.load(ex.kid(s.Arr, off+i)))
	}
	for i, v := range add {
		ex.store(ex.kid(arr, ln+i), v)
	}
	return SliceV{Arr: arr, Off: ex.intConst(0), Len: ex.intConst(int64(need)), Cap: ex.intConst(int64(ncap))}
}

func (ex *Exec) copyOp(dst SliceV, src Value) Value {
	var vals []Value
	dn := 0
	if dst.Arr != nil {
		dn = int(ex.Concretize(dst.Len, 256))
	}
	switch s := src.(type) {
	case SliceV:
		if s.Arr != nil {
			n := int(ex.Concretize(s.Len, 256))
			if n > dn {
				n = dn
			}
			for i := 0; i < n; i++ {
				vals = append(vals, ex.sliceElem(s, i))
			}
		}
	case StrV:
		n := len(s.B)
		if n > dn {
			n = dn
		}
		for i := 0; i < n; i++ {
			vals = append(vals, s.B[i])
		}
	default:
		panic(ex.unsupported("copy from %T", src))
	}
	for i, v := range vals {
		ex.storePtr(ex.sliceElemPtr(dst, i), v)
	}
	return ex.intConst(int64(len(vals)))
}

// ---------- maps ----------

func (ex *Exec) mapLog(m *MapObj) {
	for _, lv := range ex.guards {
		if m.id <= lv.objStart {
			panic(&mergeAbort{"map mutation inside merge region"})
		}
	}
	if m.base && ex.initMode == 0 {
		ents := make([]mapEntry, len(m.Entries))
		for i, e := range m.Entries {
			ents[i] = *e
		}
		ex.undo = append(ex.undo, undoRec{kind: 2, m: m, ents: ents})
	}
}

func (ex *Exec) keyEq(a, b Value, t types.Type) *smt.Term {
	return ex.eq(a, b, t)
}

// mapFind returns the live entry whose key equals k (forking on symbolic equality).
func (ex *Exec) mapFind(m *MapObj, k Value) *mapEntry {
	kt := m.T.Key()
	// exact structural hit first
	for _, e := range m.Entries {
		if e.Live && ex.sameValue(e.K, k) {
			return e
		}
	}
	for _, e := range m.Entries {
		if !e.Live {
			continue
		}
		q := ex.keyEq(e.K, k, kt)
		if q.IsFalse() {
			continue
		}
		if ex.Branch(q) {
			return e
		}
	}
	return nil
}

func (ex *Exec) mapSet(m *MapObj, k, v Value) {
	ex.mapLog(m)
	if e := ex.mapFind(m, k); e != nil {
		e.V = v
		return
	}
	m.Entries = append(m.Entries, &mapEntry{K: k, V: v, Live: true})
}

func (ex *Exec) mapDelete(m *MapObj, k Value) {
	ex.mapLog(m)
	if e := ex.mapFind(m, k); e != nil {
		e.Live = false
		// compact
		out := m.Entries[:0:0]
		for _, x := range m.Entries {
			if x.Live {
				out = append(out, x)
			}
		}
		m.Entries = out
	}
}

func (ex *Exec) lookup(fr *frame, x *ssa.Lookup) Value {
	base := ex.get(fr, x.X)
	switch b := base.(type) {
	case StrV:
		idx := ex.toInt64(ex.get(fr, x.Index), x.Index.Type())
		ex.boundsCheck(idx, ex.intConst(int64(len(b.B))), "string")
		return ex.strIndex(b, idx)
	case *MapObj:
		vt := x.X.Type().Underlying().(*types.Map).Elem()
		var val Value
		ok := false
		if b != nil {
			if e := ex.mapFind(b, ex.get(fr, x.Index)); e != nil {
				val, ok = e.V, true
			}
		}
		if !ok {
			val = ex.zero(vt)
		}
		if x.CommaOk {
			return AggV{val, ex.ctx.Bool(ok)}
		}
		return val
	}
	panic(ex.unsupported("Lookup on %T", base))
}

func (ex *Exec) rangeInit(v Value) Value {
	switch x := v.(type) {
	case StrV:
		ex.objSeq++
		return &IterV{S: x, IsS: true, seq: ex.objSeq}
	case *MapObj:
		ex.objSeq++
		it := &IterV{M: x, seq: ex.objSeq}
		if x != nil {
			for _, e := range x.Entries {
				if e.Live {
					it.Keys = append(it.Keys, e)
				}
			}
			if ex.world.ReverseMaps {
				for i, j := 0, len(it.Keys)-1; i < j; i, j = i+1, j-1 {
					it.Keys[i], it.Keys[j] = it.Keys[j], it.Keys[i]
				}
			}
		}
		return it
	}
	panic(ex.unsupported("range over %T", v))
}

func (ex *Exec) rangeNext(x *ssa.Next, it *IterV) Value {
	c := ex.ctx
	for _, lv := range ex.guards {
		if it.seq <= lv.objStart {
			panic(&mergeAbort{"iterator advanced inside merge region"})
		}
	}
	if it.IsS {
		if it.Pos >= len(it.S.B) {
			return AggV{c.False, ex.intConst(0), c.BV(32, 0)}
		}
		b0 := it.S.B[it.Pos]
		pos := it.Pos
		if b0.IsConst() && b0.Val < 0x80 || !b0.IsConst() && ex.Branch(c.ULT(b0, c.BV(8, 0x80))) {
			it.Pos++
			return AggV{c.True, ex.intConst(int64(pos)), c.ZExt(b0, 32)}
		}
		// multi-byte: concretise up to 4 bytes
		n := len(it.S.B) - pos
		if n > 4 {
			n = 4
		}
		buf := make([]byte, n)
		for i := 0; i < n; i++ {
			buf[i] = byte(ex.Concretize(it.S.B[pos+i], 256))
		}
		r, sz := utf8.DecodeRune(buf)
		it.Pos += sz
		return AggV{c.True, ex.intConst(int64(pos)), c.BV(32, uint64(r))}
	}
	for it.Pos < len(it.Keys) {
		e := it.Keys[it.Pos]
		it.Pos++
		if e.Live {
			return AggV{c.True, e.K, e.V}
		}
	}
	mt := it.M
	var kz, vz Value
	if mt != nil {
		kz, vz = ex.zero(mt.T.Key()), ex.zero(mt.T.Elem())
	} else {
		tt := x.Type().(*types.Tuple)
		kz, vz = ex.zeroOrNil(tt.At(1).Type()), ex.zeroOrNil(tt.At(2).Type())
	}
	return AggV{c.False, kz, vz}
}

func (ex *Exec) zeroOrNil(t types.Type) Value {
	if b, ok := t.(*types.Basic); ok && b.Kind() == types.Invalid {
		return nil
	}
	return ex.zero(t)
}

// ---------- channels / goroutines (sequential cooperative mode) ----------

type blockedErr struct{ what string }

func (ex *Exec) sched() {}

func (ex *Exec) chanSend(ch *ChanObj, v Value) {
	ex.noGuard("channel send")
	if ch == nil {
		panic(&pathEnd{kind: "done", msg: "blocked forever: send on nil channel"})
	}
	ex.preemptPoint()
	if ch.Closed {
		panic(&goPanic{runtime: "send on closed channel", where: ex.where(), val: IfaceV{T: types.Typ[types.String], V: ex.mkStr("send on closed channel")}})
	}
	// unbuffered channels are modelled as a one-slot rendezvous buffer
	room := func() bool { return ch.Closed || len(ch.Buf) < ch.Cap || ch.Cap == 0 && len(ch.Buf) == 0 }
	if !room() {
		ex.block(room, "channel send")
	}
	if ch.Closed {
		panic(&goPanic{runtime: "send on closed channel", where: ex.where(), val: IfaceV{T: types.Typ[types.String], V: ex.mkStr("send on closed channel")}})
	}
	ch.Buf = append(ch.Buf, v)
	if ex.cur == nil && !ex.explore {
		ex.runGoroutines()
	}
}

func (ex *Exec) chanRecv(ch *ChanObj, block bool) (Value, bool) {
	ex.noGuard("channel receive")
	if ch == nil {
		panic(ex.unsupported("receive on nil channel blocks forever"))
	}
	ex.preemptPoint()
	avail := func() bool { return len(ch.Buf) > 0 || ch.Closed || ex.timerReady(ch) }
	if !avail() && ex.cur == nil {
		ex.runGoroutines()
	}
	if !avail() {
		if !block {
			return nil, false
		}
		ex.block(avail, "channel receive")
	}
	if len(ch.Buf) == 0 && !ch.Closed && ex.timerReady(ch) {
		ex.timerFire(ch)
	}
	if len(ch.Buf) > 0 {
		v := ch.Buf[0]
		ch.Buf = ch.Buf[1:]
		return v, true
	}
	return ex.zero(ch.T.Elem()), false
}

type pendingGo struct {
	fv   *FuncV
	args []Value
}

func (ex *Exec) goStmt(fr *frame, cc *ssa.CallCommon) {
	ex.noGuard("go statement")
	args := make([]Value, 0, len(cc.Args)+1)
	var fv *FuncV
	if cc.IsInvoke() {
		recv := ex.get(fr, cc.Value).(IfaceV)
		fv = ex.funcValue(ex.lookupMethod(recv.T, cc.Method))
		args = append(args, recv.V)
	} else {
		fv = ex.get(fr, cc.Value).(*FuncV)
	}
	for _, a := range cc.Args {
		args = append(args, ex.get(fr, a))
	}
	ex.spawn(fv, args)
}

func (ex *Exec) selectOp(fr *frame, x *ssa.Select) Value {
	ex.noGuard("select")
	// ready cases, in order; nondeterministic choice among the ready ones
	type st struct {
		ch   *ChanObj
		send Value
	}
	states := make([]st, len(x.States))
	for i, s := range x.States {
		states[i].ch, _ = ex.get(fr, s.Chan).(*ChanObj)
		if s.Send != nil {
			states[i].send = ex.get(fr, s.Send)
		}
	}
	ready := func() []int {
		var r []int
		for i, s := range x.States {
			ch := states[i].ch
			if ch == nil {
				continue
			}
			if s.Dir == types.SendOnly {
				if ch.Closed || len(ch.Buf) < ch.Cap || ch.Cap == 0 && len(ch.Buf) == 0 {
					r = append(r, i)
				}
			} else if len(ch.Buf) > 0 || ch.Closed || ex.timerReady(ch) {
				r = append(r, i)
			}
		}
		return r
	}
	ex.preemptPoint()
	r := ready()
	if len(r) == 0 && ex.cur == nil && x.Blocking {
		ex.runGoroutines()
		r = ready()
	}
	if len(r) == 0 && x.Blocking {
		ex.block(func() bool { return len(ready()) > 0 }, "select")
		r = ready()
	}
	nrecv := 0
	for _, s := range x.States {
		if s.Dir == types.RecvOnly {
			nrecv++
		}
	}
	res := make(AggV, 2+nrecv)
	res[1] = ex.ctx.False
	ri := 2
	for _, s := range x.States {
		if s.Dir == types.RecvOnly {
			res[ri] = ex.zero(s.Chan.Type().Underlying().(*types.Chan).Elem())
			ri++
		}
	}
	if len(r) > 0 && !x.Blocking {
		// a non-blocking select whose only ready cases are timers that may (not must) have fired:
		// the default branch is possible too
		soft := true
		for _, i := range r {
			ch := states[i].ch
			if x.States[i].Dir == types.SendOnly || len(ch.Buf) > 0 || ch.Closed {
				soft = false
			}
		}
		if soft && ex.chooseSched(2) == 0 {
			r = nil
		}
	}
	if len(r) == 0 {
		if x.Blocking {
			panic(ex.unsupported("select would block (sequential mode)"))
		}
		res[0] = ex.ctx.BV(64, ^uint64(0))
		return res
	}
	var pick int
	if ex.explore && len(r) > 1 {
		pick = r[ex.chooseSched(len(r))]
	} else {
		pick = r[ex.Choose(len(r))]
	}
	res[0] = ex.intConst(int64(pick))
	s := x.States[pick]
	if s.Dir == types.SendOnly {
		ex.chanSend(states[pick].ch, states[pick].send)
		return res
	}
	v, ok := ex.chanRecv(states[pick].ch, true)
	res[1] = ex.ctx.Bool(ok)
	ri = 2
	for i, s2 := range x.States {
		if s2.Dir == types.RecvOnly {
			if i == pick {
				res[ri] = v
			}
			ri++
		}
	}
	return res
}
