package gosym

import (
	"fmt"
	"go/types"

	"golang.org/x/tools/go/ssa"
	"verif/engine/smt"
)

// Value is one of:
//
//	*smt.Term            bool / integer scalar (constant terms are the concrete case)
//	FloatV               concrete float
//	ComplexV             concrete complex
//	StrV                 string with concrete length, per-byte terms
//	PtrV                 pointer (nil: C==nil)
//	SliceV               slice  (nil: Arr==nil)
//	*MapObj              map    (nil pointer = nil map)
//	IfaceV               interface value (nil: T==nil)
//	*FuncV               closure / function / bound method (nil pointer = nil func)
//	AggV                 struct / array / tuple value
//	*ChanObj             channel
//	*IterV               range iterator
type Value interface{}

type FloatV float64
type ComplexV complex128

type StrV struct{ B []*smt.Term }

type AggV []Value

type PtrV struct {
	C      *Cell
	Idx    *smt.Term // non-nil: symbolic element of array cell C
	Lo, Hi int       // known bounds of Idx (Hi<=Lo: unknown)
}

type SliceV struct {
	Arr           *Cell // array cell; nil = nil slice
	Off, Len, Cap *smt.Term
}

type IfaceV struct {
	T types.Type // dynamic type; nil = nil interface
	V Value
}

type FuncV struct {
	Fn      *ssa.Function
	Env     []Value
	Builtin string // non-empty: engine-native function
	Native  func(ex *Exec, args []Value) Value
}

// Cell is one addressable location.  Leaf cells hold V; struct/array cells hold Kids.
type Cell struct {
	T      types.Type
	V      Value
	Kids   []*Cell
	Parent *Cell
	Idx    int
	id     int
	age    int  // allocation order used by merge guards (lazily created array elements inherit the array's)
	base   bool // allocated by a package initialiser: mutations are undone at path end
	// Sparse arrays: when Lazy is set Kids[i]==nil means "zero value of elem type".
	Lazy bool
}

type mapEntry struct {
	K, V Value
	Live bool
}

type MapObj struct {
	T       *types.Map
	Entries []*mapEntry
	id      int
	base    bool
}

type ChanObj struct {
	T      *types.Chan
	Cap    int
	Buf    []Value
	Closed bool
	id     int
	Timer  *timerState
}

type IterV struct {
	M    *MapObj
	Keys []*mapEntry
	S    StrV
	Pos  int
	IsS  bool
	seq  int
}

type namedConst struct{}

func isScalarType(t types.Type) bool {
	switch u := t.Underlying().(type) {
	case *types.Basic:
		return u.Info()&(types.IsBoolean|types.IsInteger) != 0 || u.Kind() == types.UnsafePointer && false
	}
	return false
}

func (ex *Exec) widthOf(t types.Type) int {
	b, ok := t.Underlying().(*types.Basic)
	if !ok {
		panic(ex.unsupported("widthOf non-basic %s", t))
	}
	switch b.Kind() {
	case types.Bool, types.UntypedBool:
		return 0
	case types.Int8, types.Uint8:
		return 8
	case types.Int16, types.Uint16:
		return 16
	case types.Int32, types.Uint32, types.UntypedRune:
		return 32
	case types.Int, types.Uint, types.Int64, types.Uint64, types.Uintptr, types.UntypedInt:
		return 64
	}
	panic(ex.unsupported("widthOf %s", t))
}

func isSigned(t types.Type) bool {
	b, ok := t.Underlying().(*types.Basic)
	if !ok {
		return false
	}
	return b.Info()&types.IsInteger != 0 && b.Info()&types.IsUnsigned == 0
}

func isFloat(t types.Type) bool {
	b, ok := t.Underlying().(*types.Basic)
	return ok && b.Info()&types.IsFloat != 0
}

func isString(t types.Type) bool {
	b, ok := t.Underlying().(*types.Basic)
	return ok && b.Info()&types.IsString != 0
}

func isInteger(t types.Type) bool {
	b, ok := t.Underlying().(*types.Basic)
	return ok && b.Info()&types.IsInteger != 0
}

func isBoolean(t types.Type) bool {
	b, ok := t.Underlying().(*types.Basic)
	return ok && b.Info()&types.IsBoolean != 0
}

// zero returns the zero Value of type t.
func (ex *Exec) zero(t types.Type) Value {
	switch u := t.Underlying().(type) {
	case *types.Basic:
		switch {
		case u.Info()&types.IsBoolean != 0:
			return ex.ctx.False
		case u.Info()&types.IsInteger != 0:
			return ex.ctx.BV(ex.widthOf(t), 0)
		case u.Info()&types.IsFloat != 0:
			return FloatV(0)
		case u.Info()&types.IsComplex != 0:
			return ComplexV(0)
		case u.Info()&types.IsString != 0:
			return StrV{}
		case u.Kind() == types.UnsafePointer:
			return PtrV{}
		case u.Kind() == types.UntypedNil:
			return nil
		}
	case *types.Pointer:
		return PtrV{}
	case *types.Slice:
		return SliceV{}
	case *types.Map:
		return (*MapObj)(nil)
	case *types.Chan:
		return (*ChanObj)(nil)
	case *types.Signature:
		return (*FuncV)(nil)
	case *types.Interface:
		return IfaceV{}
	case *types.Struct:
		a := make(AggV, u.NumFields())
		for i := range a {
			a[i] = ex.zero(u.Field(i).Type())
		}
		return a
	case *types.Array:
		n := int(u.Len())
		if n > 1<<16 {
			panic(ex.unsupported("array value of %d elements", n))
		}
		a := make(AggV, n)
		if n > 0 {
			z := ex.zero(u.Elem())
			for i := range a {
				a[i] = z
			}
		}
		return a
	case *types.Tuple:
		a := make(AggV, u.Len())
		for i := range a {
			a[i] = ex.zero(u.At(i).Type())
		}
		return a
	case *types.TypeParam:
		panic(ex.unsupported("zero of type parameter %s", t))
	}
	panic(ex.unsupported("zero of %s", t))
}

// newCell allocates a cell tree for type t, zero-initialised.
func (ex *Exec) newCell(t types.Type) *Cell {
	ex.cellSeq++
	c := &Cell{T: t, id: ex.cellSeq, age: ex.cellSeq, base: ex.initMode > 0}
	switch u := t.Underlying().(type) {
	case *types.Struct:
		c.Kids = make([]*Cell, u.NumFields())
		for i := range c.Kids {
			k := ex.newCell(u.Field(i).Type())
			k.Parent, k.Idx = c, i
			c.Kids[i] = k
		}
	case *types.Array:
		n := int(u.Len())
		if n > 1<<24 {
			panic(ex.unsupported("array cell of %d elements", n))
		}
		c.Kids = make([]*Cell, n)
		c.Lazy = true
	default:
		c.V = ex.zero(t)
	}
	return c
}

func (ex *Exec) newArrayCell(elem types.Type, n int) *Cell {
	return ex.newCell(types.NewArray(elem, int64(n)))
}

func (c *Cell) elemType() types.Type {
	return c.T.Underlying().(*types.Array).Elem()
}

// kid returns child i, materialising lazy array elements.
func (ex *Exec) kid(c *Cell, i int) *Cell {
	if i < 0 || i >= len(c.Kids) {
		panic(fmt.Sprintf("gosym: kid index %d out of %d", i, len(c.Kids)))
	}
	k := c.Kids[i]
	if k == nil {
		k = ex.newCell(c.elemType())
		k.Parent, k.Idx = c, i
		setAge(k, c.age) // the element exists since the array was allocated
		c.Kids[i] = k
		if c.base && ex.initMode == 0 {
			ex.undo = append(ex.undo, undoRec{c: c, kidI: i, kind: 1})
		}
	}
	return k
}

// load reads the (deep) value of a cell.
func (ex *Exec) load(c *Cell) Value {
	if c.Kids == nil {
		if _, isArr := c.T.Underlying().(*types.Array); isArr {
			return AggV{}
		}
		if st, isSt := c.T.Underlying().(*types.Struct); isSt && st.NumFields() == 0 {
			return AggV{}
		}
		if len(ex.guards) > 0 {
			return ex.simpG(c.V)
		}
		return c.V
	}
	a := make(AggV, len(c.Kids))
	var z Value
	for i, k := range c.Kids {
		if k == nil {
			if z == nil {
				z = ex.zero(c.elemType())
			}
			a[i] = z
		} else {
			a[i] = ex.load(k)
		}
	}
	return a
}

// store writes v (deep) into cell c.
func (ex *Exec) store(c *Cell, v Value) {
	if c.Kids == nil {
		if _, isArr := c.T.Underlying().(*types.Array); isArr {
			return
		}
		if st, isSt := c.T.Underlying().(*types.Struct); isSt && st.NumFields() == 0 {
			return
		}
		if c.base && ex.initMode == 0 {
			ex.undo = append(ex.undo, undoRec{c: c, v: c.V})
		}
		if len(ex.guards) > 0 {
			if g := ex.guardFor(c); g != nil {
				m, ok := ex.iteTry(g, v, c.V)
				if !ok {
					panic(&mergeAbort{"store of unmergeable value"})
				}
				v = m
			}
			ex.mlog = append(ex.mlog, mlogRec{c, c.V})
		}
		c.V = v
		return
	}
	a, ok := v.(AggV)
	if !ok || len(a) != len(c.Kids) {
		panic(ex.unsupported("store: shape mismatch for %s (%T)", c.T, v))
	}
	for i := range c.Kids {
		if c.Kids[i] == nil && c.Lazy {
			// avoid materialising when storing zero into an untouched element
			if t, ok := a[i].(*smt.Term); ok && t.IsConst() && t.Val == 0 {
				continue
			}
		}
		ex.store(ex.kid(c, i), a[i])
	}
}

// ite builds the value "if cond then a else b" for values of the same shape.
func (ex *Exec) ite(cond *smt.Term, a, b Value) Value {
	if m, ok := ex.iteTry(cond, a, b); ok {
		return m
	}
	// cannot merge: split the path
	if ex.Branch(cond) {
		return a
	}
	return b
}

func typesIdentical(a, b types.Type) bool { return types.Identical(a, b) }

// sameValue is identity for reference-like values, structural for scalars.
func (ex *Exec) sameValue(a, b Value) bool {
	switch x := a.(type) {
	case *smt.Term:
		y, ok := b.(*smt.Term)
		return ok && x == y
	case PtrV:
		y, ok := b.(PtrV)
		return ok && x.C == y.C && x.Idx == y.Idx
	case *MapObj:
		y, ok := b.(*MapObj)
		return ok && x == y
	case *FuncV:
		y, ok := b.(*FuncV)
		return ok && x == y
	case *ChanObj:
		y, ok := b.(*ChanObj)
		return ok && x == y
	case FloatV:
		y, ok := b.(FloatV)
		return ok && x == y
	case SliceV:
		y, ok := b.(SliceV)
		return ok && x.Arr == y.Arr && x.Off == y.Off && x.Len == y.Len && x.Cap == y.Cap
	case IfaceV:
		y, ok := b.(IfaceV)
		if !ok {
			return false
		}
		if x.T == nil || y.T == nil {
			return x.T == nil && y.T == nil
		}
		return types.Identical(x.T, y.T) && ex.sameValue(x.V, y.V)
	case StrV:
		y, ok := b.(StrV)
		if !ok || len(x.B) != len(y.B) {
			return false
		}
		for i := range x.B {
			if x.B[i] != y.B[i] {
				return false
			}
		}
		return true
	case AggV:
		y, ok := b.(AggV)
		if !ok || len(x) != len(y) {
			return false
		}
		for i := range x {
			if !ex.sameValue(x[i], y[i]) {
				return false
			}
		}
		return true
	case nil:
		return b == nil
	}
	return false
}

func (ex *Exec) mkStr(s string) StrV {
	b := make([]*smt.Term, len(s))
	for i := 0; i < len(s); i++ {
		b[i] = ex.byteConst(s[i])
	}
	return StrV{B: b}
}

func (ex *Exec) byteConst(b byte) *smt.Term {
	if ex.byteTab[b] == nil {
		ex.byteTab[b] = ex.ctx.BV(8, uint64(b))
	}
	return ex.byteTab[b]
}

// concreteStr returns the Go string if all bytes are constant.
func (ex *Exec) concreteStr(s StrV) (string, bool) {
	buf := make([]byte, len(s.B))
	for i, t := range s.B {
		if !t.IsConst() {
			return "", false
		}
		buf[i] = byte(t.Val)
	}
	return string(buf), true
}

func (ex *Exec) intConst(v int64) *smt.Term { return ex.ctx.BV(64, uint64(v)) }

func setAge(c *Cell, age int) {
	c.age = age
	for _, k := range c.Kids {
		if k != nil {
			setAge(k, age)
		}
	}
}
