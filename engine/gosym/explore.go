package gosym

import (
	"fmt"
	"os"
	"sync"
	"time"

	"golang.org/x/tools/go/ssa"
)

type workItem struct {
	fn    *ssa.Function
	trail []uint64
}

// Explore runs every harness function over all feasible paths with a pool of workers.
func Explore(w *World, fns []*ssa.Function, cfg Config, workers int) (*Stats, map[string]*Stats, error) {
	if workers < 1 {
		workers = 1
	}
	var mu sync.Mutex
	cond := sync.NewCond(&mu)
	var stack []workItem
	for i := len(fns) - 1; i >= 0; i-- {
		stack = append(stack, workItem{fns[i], nil})
	}
	inflight := 0
	perHarness := map[string]int{}
	total := newStats()
	byHarness := map[string]*Stats{}
	var firstErr error
	var wg sync.WaitGroup
	for k := 0; k < workers; k++ {
		wg.Add(1)
		go func() {
			defer wg.Done()
			c := cfg
			ex, err := NewExec(w, &c)
			if err != nil {
				mu.Lock()
				firstErr = err
				mu.Unlock()
				return
			}
			defer ex.Close()
			for {
				mu.Lock()
				for len(stack) == 0 && inflight > 0 {
					cond.Wait()
				}
				if len(stack) == 0 {
					mu.Unlock()
					cond.Broadcast()
					break
				}
				// take the newest item of the harness that has been served least (depth-first within a
				// harness, fair between harnesses)
				pick := -1
				for i := len(stack) - 1; i >= 0; i-- {
					if pick < 0 || perHarness[stack[i].fn.Name()] < perHarness[stack[pick].fn.Name()] {
						pick = i
					}
					if len(stack)-i > 64 {
						break
					}
				}
				it := stack[pick]
				stack = append(stack[:pick], stack[pick+1:]...)
				name := it.fn.Name()
				perHarness[name]++
				over := cfg.MaxPaths > 0 && perHarness[name] > cfg.MaxPaths
				expired := !cfg.Deadline.IsZero() && time.Now().After(cfg.Deadline)
				inflight++
				mu.Unlock()

				tA := time.Now()
				var alts [][]uint64
				if over || expired {
					ex.stats.LimitHit = true
				} else {
					alts = ex.RunPath(it.fn, it.trail)
				}

				tB := time.Now()
				mu.Lock()
				inflight--
				for i := len(alts) - 1; i >= 0; i-- {
					stack = append(stack, workItem{it.fn, alts[i]})
				}
				hs := byHarness[name]
				if hs == nil {
					hs = newStats()
					byHarness[name] = hs
				}
				hs.Merge(ex.stats)
				total.Merge(ex.stats)
				ex.stats = newStats()
				mu.Unlock()
				cond.Broadcast()
				tC := time.Now()
				if ex.NumTerms() > 400000 {
					if err := ex.ResetContext(); err != nil {
						mu.Lock()
						firstErr = err
						mu.Unlock()
						return
					}
				}
				tD := time.Now()
				if os.Getenv("VERIF_DEBUG") != "" {
					dbgRun += tB.Sub(tA)
					dbgMerge += tC.Sub(tB)
					dbgReset += tD.Sub(tC)
					dbgN++
					if dbgN%200 == 0 {
						fmt.Fprintf(os.Stderr, "DEBUG explore: n=%d run=%v merge=%v reset=%v send=%v bytes=%d solver=%v terms=%d\n", dbgN, dbgRun, dbgMerge, dbgReset, ex.solver.SendTime, ex.solver.SentBytes, ex.solver.Time, ex.NumTerms())
					}
				}
			}
		}()
	}
	wg.Wait()
	return total, byHarness, firstErr
}

var dbgRun, dbgMerge, dbgReset time.Duration
var dbgN int
