package gosym

import (
	"fmt"
	"os"
	"path/filepath"
	"strings"
	"time"

	"golang.org/x/tools/go/packages"
	"golang.org/x/tools/go/ssa"
	"golang.org/x/tools/go/ssa/ssautil"
)

// World is the loaded program (shared, read-only, by all workers).
type World struct {
	Prog        *ssa.Program
	Pkgs        []*packages.Package
	SSAPkgs     map[string]*ssa.Package
	LoadTime    time.Duration
	NumPkgs     int
	ReverseMaps bool
	FixedClock  bool
	Thorough    bool
	Overlay     map[string]string // virtual path -> real path
}

type LoadConfig struct {
	RepoDir  string
	Patterns []string
	Tags     string
	// Overlay maps a path under RepoDir (virtual) to file contents.
	Overlay map[string][]byte
}

func GoEnv() []string {
	env := os.Environ()
	out := env[:0:0]
	for _, e := range env {
		if strings.HasPrefix(e, "GOFLAGS=") || strings.HasPrefix(e, "GOTOOLCHAIN=") || strings.HasPrefix(e, "GOPROXY=") ||
			strings.HasPrefix(e, "PATH=") || strings.HasPrefix(e, "GOSUMDB=") {
			continue
		}
		out = append(out, e)
	}
	path := os.Getenv("PATH")
	if !strings.HasPrefix(path, "/opt/veriftools/go1.26.8/bin:") {
		path = "/opt/veriftools/go1.26.8/bin:" + path
	}
	out = append(out, "PATH="+path, "GOTOOLCHAIN=local", "GOFLAGS=-mod=mod", "GOPROXY=off")
	return out
}

func Load(lc *LoadConfig) (*World, error) {
	t0 := time.Now()
	cfg := &packages.Config{
		Mode: packages.NeedName | packages.NeedFiles | packages.NeedCompiledGoFiles | packages.NeedImports | packages.NeedDeps |
			packages.NeedTypes | packages.NeedSyntax | packages.NeedTypesInfo | packages.NeedTypesSizes | packages.NeedModule,
		Dir:     lc.RepoDir,
		Env:     GoEnv(),
		Overlay: lc.Overlay,
	}
	if lc.Tags != "" {
		cfg.BuildFlags = []string{"-tags=" + lc.Tags}
	}
	pkgs, err := packages.Load(cfg, lc.Patterns...)
	if err != nil {
		return nil, err
	}
	var errs []string
	packages.Visit(pkgs, nil, func(p *packages.Package) {
		for _, e := range p.Errors {
			errs = append(errs, e.Pos+": "+e.Msg)
		}
	})
	if len(errs) > 0 {
		if len(errs) > 20 {
			errs = errs[:20]
		}
		return nil, fmt.Errorf("load errors:\n  %s", strings.Join(errs, "\n  "))
	}
	prog, _ := ssautil.AllPackages(pkgs, ssa.InstantiateGenerics)
	prog.Build()
	w := &World{Prog: prog, Pkgs: pkgs, SSAPkgs: map[string]*ssa.Package{}}
	for _, p := range prog.AllPackages() {
		w.SSAPkgs[p.Pkg.Path()] = p
		w.NumPkgs++
	}
	w.LoadTime = time.Since(t0)
	return w, nil
}

// HarnessOverlay reads every file below dir (mirroring repo-relative paths) into an overlay.
func HarnessOverlay(repoDir, dir string) (map[string][]byte, error) {
	ov := map[string][]byte{}
	err := filepath.Walk(dir, func(p string, fi os.FileInfo, err error) error {
		if err != nil {
			return err
		}
		if fi.IsDir() || !strings.HasSuffix(p, ".go") {
			return nil
		}
		rel, _ := filepath.Rel(dir, p)
		b, err := os.ReadFile(p)
		if err != nil {
			return err
		}
		ov[filepath.Join(repoDir, rel)] = b
		return nil
	})
	return ov, err
}

func (w *World) Func(pkgPath, name string) *ssa.Function {
	p := w.SSAPkgs[pkgPath]
	if p == nil {
		return nil
	}
	return p.Func(name)
}
