package gosym

import (
	"fmt"
	"os"
	"strings"
	"golang.org/x/tools/go/ssa"
	"verif/engine/smt"
)

// State merging ("if-conversion"): at a symbolic two-way branch whose arms rejoin at the
// immediate post-dominator, both arms are executed one after the other with every store
// guarded by the branch condition, and the join's phi nodes become ite terms. Any effect
// that cannot be guarded aborts the attempt, rolls the heap back and falls back to forking.
// Whether a merge was done is recorded in the decision trail (2 = merged, 3 = not merged),
// so replayed prefixes take exactly the same shape.

type guardLevel struct {
	cond      *smt.Term
	cellStart int
	objStart  int
}

type mlogRec struct {
	c *Cell
	v Value
}

type mergeAbort struct{ why string }

const (
	trailMerged   = 2
	trailNoMerge  = 3
	maxRegionSize = 48
)

func (ex *Exec) guarded() bool { return len(ex.guards) > 0 }

// noGuard aborts the current merge attempt when an effect cannot be guarded.
func (ex *Exec) noGuard(why string) {
	if len(ex.guards) > 0 {
		panic(&mergeAbort{why})
	}
}

// guardFor returns the condition under which a store to cell c takes effect (nil = always).
func (ex *Exec) guardFor(c *Cell) *smt.Term {
	var g *smt.Term
	for _, lv := range ex.guards {
		if c.age <= lv.cellStart {
			if g == nil {
				g = lv.cond
			} else {
				g = ex.ctx.And(g, lv.cond)
			}
		}
	}
	return g
}

func (ex *Exec) totalGuard() *smt.Term {
	g := ex.ctx.True
	for _, lv := range ex.guards {
		g = ex.ctx.And(g, lv.cond)
	}
	return g
}

type pdomInfo struct {
	ipdom map[*ssa.BasicBlock]*ssa.BasicBlock
}

// postDominators computes immediate post-dominators (nil = exit).
func (ex *Exec) postDominators(fn *ssa.Function) *pdomInfo {
	if p, ok := ex.pdoms[fn]; ok {
		return p
	}
	n := len(fn.Blocks)
	words := (n + 1 + 63) / 64
	full := make([]uint64, words)
	for i := 0; i <= n; i++ {
		full[i/64] |= 1 << uint(i%64)
	}
	sets := make([][]uint64, n+1) // index n = virtual exit
	for i := range sets {
		sets[i] = append([]uint64(nil), full...)
	}
	exit := make([]uint64, words)
	exit[n/64] |= 1 << uint(n%64)
	sets[n] = exit
	changed := true
	for changed {
		changed = false
		for i := n - 1; i >= 0; i-- {
			b := fn.Blocks[i]
			nw := append([]uint64(nil), full...)
			if len(b.Succs) == 0 {
				copy(nw, sets[n])
			} else {
				for _, s := range b.Succs {
					for k := range nw {
						nw[k] &= sets[s.Index][k]
					}
				}
			}
			nw[i/64] |= 1 << uint(i%64)
			same := true
			for k := range nw {
				if nw[k] != sets[i][k] {
					same = false
				}
			}
			if !same {
				sets[i] = nw
				changed = true
			}
		}
	}
	count := func(s []uint64) int {
		c := 0
		for _, w := range s {
			for ; w != 0; w &= w - 1 {
				c++
			}
		}
		return c
	}
	info := &pdomInfo{ipdom: map[*ssa.BasicBlock]*ssa.BasicBlock{}}
	for i, b := range fn.Blocks {
		want := count(sets[i]) - 1
		for j := 0; j < n; j++ {
			if j != i && sets[i][j/64]&(1<<uint(j%64)) != 0 && count(sets[j]) == want {
				info.ipdom[b] = fn.Blocks[j]
				break
			}
		}
	}
	ex.pdoms[fn] = info
	return info
}

// mergeJoin returns the join block of the If ending b: the nearest block J (breadth-first from
// b) that is reachable from both successors without passing through b, such that no block an arm
// can execute before J dominates J (an arm that went around an enclosing loop would redefine
// values that are live at J without a phi there). Arms that leave the function, come back to b
// or exceed the unwinding bound at run time abort the attempt, so error exits inside the region
// do not disqualify it.
func (ex *Exec) mergeJoin(fr *frame, b *ssa.BasicBlock) *ssa.BasicBlock {
	if ex.cfg.NoMerge || ex.cfg.Inputs != nil {
		return nil
	}
	if ex.noMergeIn(fr.fn.String()) {
		return nil
	}
	if j, ok := ex.joinOf[b]; ok {
		return j
	}
	var j *ssa.BasicBlock
	defer func() { ex.joinOf[b] = j }()
	if len(b.Succs) != 2 {
		return nil
	}
	reach := func(start, stopAt *ssa.BasicBlock) map[*ssa.BasicBlock]bool {
		seen := map[*ssa.BasicBlock]bool{}
		if start == b || start == stopAt {
			return seen
		}
		seen[start] = true
		stack := []*ssa.BasicBlock{start}
		for len(stack) > 0 {
			x := stack[len(stack)-1]
			stack = stack[:len(stack)-1]
			for _, s := range x.Succs {
				if s != b && s != stopAt && !seen[s] {
					seen[s] = true
					stack = append(stack, s)
				}
			}
		}
		return seen
	}
	rT, rF := reach(b.Succs[0], nil), reach(b.Succs[1], nil)
	// candidates in breadth-first order from b
	var cands []*ssa.BasicBlock
	seen := map[*ssa.BasicBlock]bool{b: true}
	queue := []*ssa.BasicBlock{b}
	for len(queue) > 0 && len(cands) < 6 {
		x := queue[0]
		queue = queue[1:]
		for _, s := range x.Succs {
			if seen[s] {
				continue
			}
			seen[s] = true
			if rT[s] && rF[s] {
				cands = append(cands, s)
			}
			queue = append(queue, s)
		}
	}
	for _, c := range cands {
		ra, rb := reach(b.Succs[0], c), reach(b.Succs[1], c)
		if len(ra)+len(rb) > maxRegionSize {
			continue
		}
		ok := true
		for x := range ra {
			if x.Dominates(c) {
				ok = false
			}
		}
		for x := range rb {
			if x.Dominates(c) {
				ok = false
			}
		}
		if ok {
			j = c
			return j
		}
	}
	return nil
}

// tryMerge executes both arms of the If ending block b under guards. On success the phi
// nodes of j are set and true is returned; the caller continues at j skipping its phis.
func (ex *Exec) tryMerge(fr *frame, b *ssa.BasicBlock, c *smt.Term, j *ssa.BasicBlock) (merged bool) {
	if ex.initMode > 0 {
		return false
	}
	replaying := ex.pos < len(ex.trail)
	if replaying {
		v := ex.trail[ex.pos]
		if v == trailNoMerge {
			ex.pos++
			ex.decided = append(ex.decided, trailNoMerge)
			return false
		}
		if v != trailMerged {
			// trail recorded before merging existed at this site: treat as not merged
			return false
		}
	} else {
		if ex.mergeFails[b] >= 3 && ex.mergeOKs[b] == 0 {
			ex.decided = append(ex.decided, trailNoMerge)
			ex.pos++
			return false
		}
		// No feasibility queries here: executing an infeasible arm under its guard is harmless
		// (its effects are selected by a false condition) and a symbolic two-sided branch or a
		// panic inside an arm aborts the attempt anyway. Only a syntactically decided condition
		// is left to Branch.
		if ex.pcKnows(c) != 0 {
			return false
		}
		// Both arms must be feasible: inside an infeasible arm every branch looks one-sided and
		// wrong decisions (and the obligations, panics and literal-cache entries they lead to)
		// were observed to leak. One query (the model cache decides the other side).
		if !ex.bothFeasible(c) {
			return false
		}
	}
	// commit to an attempt
	decMark, posMark := len(ex.decided), ex.pos
	ex.decided = append(ex.decided, trailMerged)
	ex.pos++
	logMark := len(ex.mlog)
	stackMark := len(ex.stack)
	pcMark, depthMark := len(ex.pc), ex.solver.Depth()
	guardMark := len(ex.guards)
	defersMark := len(fr.defers)
	panicsMark := len(ex.panics)
	savedEval := ex.eval
	visits := append([]int32(nil), fr.visits...)
	headsMark := len(fr.regionHeads)
	fail := func(why string) {
		fr.regionHeads = fr.regionHeads[:headsMark]
		// roll back
		for i := len(ex.mlog) - 1; i >= logMark; i-- {
			ex.mlog[i].c.V = ex.mlog[i].v
		}
		ex.mlog = ex.mlog[:logMark]
		ex.guards = ex.guards[:guardMark]
		ex.stack = ex.stack[:stackMark]
		ex.panics = ex.panics[:panicsMark]
		fr.defers = fr.defers[:defersMark]
		fr.visits = visits
		ex.solver.Pop(ex.solver.Depth() - depthMark)
		ex.truncPC(pcMark)
		ex.decided = append(ex.decided[:decMark], trailNoMerge)
		ex.pos = posMark + 1
		ex.eval = savedEval
		ex.mergeFails[b]++
		ex.stats.MergeAborts[why]++
		if replaying {
			if os.Getenv("VERIF_DEBUG") != "" {
				fmt.Fprintf(os.Stderr, "DEBUG merge replay failure: why=%s posMark=%d trail=%v decided=%v\n", why, posMark, ex.trail, ex.decided)
			}
			panic(ex.unsupported("merge recorded in trail did not reproduce: %s", why))
		}
	}
	defer func() {
		if r := recover(); r != nil {
			switch e := r.(type) {
			case *mergeAbort:
				fail(e.why)
				merged = false
			case *goPanic:
				fail("go panic in arm: " + ex.panicString(e))
				merged = false
			default:
				panic(r)
			}
		}
	}()
	runArm := func(cond *smt.Term, start *ssa.BasicBlock) *ssa.BasicBlock {
		ex.guards = append(ex.guards, guardLevel{cond: cond, cellStart: ex.cellSeq, objStart: ex.objSeq})
		ex.assumeTerm(cond)
		fr.region++
		defer func() { fr.region-- }()
		var from *ssa.BasicBlock
		if start == j {
			from = b
		} else {
			fr.regionHeads = append(fr.regionHeads, b)
			_, from = ex.runBlocks(fr, start, b, j)
			fr.regionHeads = fr.regionHeads[:len(fr.regionHeads)-1]
			if from == nil {
				panic(&mergeAbort{"arm left the function"})
			}
		}
		ex.solver.Pop(ex.solver.Depth() - depthMark)
		ex.truncPC(pcMark)
		ex.guards = ex.guards[:guardMark]
		ex.eval = savedEval
		return from
	}
	fromA := runArm(c, b.Succs[0])
	// phi operands of arm A must be read before arm B may overwrite shared SSA slots
	var phis []*ssa.Phi
	for _, in := range j.Instrs {
		p, ok := in.(*ssa.Phi)
		if !ok {
			break
		}
		phis = append(phis, p)
	}
	edge := func(from *ssa.BasicBlock) int {
		for i, p := range j.Preds {
			if p == from {
				return i
			}
		}
		panic(&mergeAbort{"join predecessor not found"})
	}
	ia := edge(fromA)
	va := make([]Value, len(phis))
	for i, p := range phis {
		va[i] = ex.get(fr, p.Edges[ia])
	}
	fromB := runArm(ex.ctx.Not(c), b.Succs[1])
	ib := edge(fromB)
	out := make([]Value, len(phis))
	for i, p := range phis {
		vb := ex.get(fr, p.Edges[ib])
		m, ok := ex.iteTry(c, va[i], vb)
		if !ok {
			panic(&mergeAbort{"phi values not mergeable"})
		}
		out[i] = m
	}
	for i, p := range phis {
		ex.set(fr, p, out[i])
	}
	if guardMark == 0 {
		ex.mlog = ex.mlog[:0]
	}
	ex.mergeOKs[b]++
	ex.stats.Merges++
	return true
}

// iteTry merges two values under cond without forking; ok=false when impossible.
func (ex *Exec) iteTry(cond *smt.Term, a, b Value) (Value, bool) {
	if cond.IsTrue() {
		return a, true
	}
	if cond.IsFalse() {
		return b, true
	}
	switch x := a.(type) {
	case *smt.Term:
		y, ok := b.(*smt.Term)
		if !ok || x.W != y.W {
			return nil, false
		}
		return ex.ctx.Ite(cond, x, y), true
	case AggV:
		y, ok := b.(AggV)
		if !ok || len(x) != len(y) {
			return nil, false
		}
		r := make(AggV, len(x))
		for i := range x {
			m, ok := ex.iteTry(cond, x[i], y[i])
			if !ok {
				return nil, false
			}
			r[i] = m
		}
		return r, true
	case StrV:
		y, ok := b.(StrV)
		if !ok || len(x.B) != len(y.B) {
			return nil, false
		}
		r := StrV{B: make([]*smt.Term, len(x.B))}
		for i := range x.B {
			r.B[i] = ex.ctx.Ite(cond, x.B[i], y.B[i])
		}
		return r, true
	case SliceV:
		y, ok := b.(SliceV)
		if !ok {
			return nil, false
		}
		if x.Arr == y.Arr && x.Arr != nil {
			return SliceV{Arr: x.Arr, Off: ex.ctx.Ite(cond, x.Off, y.Off), Len: ex.ctx.Ite(cond, x.Len, y.Len), Cap: ex.ctx.Ite(cond, x.Cap, y.Cap)}, true
		}
	case IfaceV:
		y, ok := b.(IfaceV)
		if ok && x.T != nil && y.T != nil && typesIdentical(x.T, y.T) {
			m, ok := ex.iteTry(cond, x.V, y.V)
			if ok {
				return IfaceV{T: x.T, V: m}, true
			}
		}
	case PtrV:
		y, ok := b.(PtrV)
		if ok && x.C == y.C && x.C != nil && x.Idx != nil && y.Idx != nil {
			return PtrV{C: x.C, Idx: ex.ctx.Ite(cond, x.Idx, y.Idx)}, true
		}
	}
	if ex.sameValue(a, b) {
		return a, true
	}
	return nil, false
}

// simpG simplifies a loaded value with respect to the active guards: an ite whose
// condition is (the negation of) an active guard literal collapses to one side.
func (ex *Exec) simpG(v Value) Value {
	switch x := v.(type) {
	case *smt.Term:
		return ex.simpTerm(x)
	case SliceV:
		if x.Arr == nil {
			return x
		}
		return SliceV{Arr: x.Arr, Off: ex.simpTerm(x.Off), Len: ex.simpTerm(x.Len), Cap: ex.simpTerm(x.Cap)}
	case PtrV:
		if x.Idx != nil {
			x.Idx = ex.simpTerm(x.Idx)
			if x.Idx.IsConst() {
				return PtrV{C: ex.kid(x.C, int(x.Idx.Val))}
			}
		}
		return x
	case IfaceV:
		if x.T != nil {
			return IfaceV{T: x.T, V: ex.simpG(x.V)}
		}
	}
	return v
}

func (ex *Exec) simpTerm(t *smt.Term) *smt.Term {
	for t.Op == smt.OpIte {
		c := t.Args[0]
		hit := false
		for _, lv := range ex.guards {
			g := lv.cond
			if g == c {
				t, hit = t.Args[1], true
				break
			}
			if g.Op == smt.OpNot && g.Args[0] == c {
				t, hit = t.Args[2], true
				break
			}
		}
		if !hit {
			break
		}
	}
	return t
}

// bothFeasible reports whether c and not-c are both satisfiable under the path condition,
// using the cached model to save one query.
func (ex *Exec) bothFeasible(c *smt.Term) bool {
	if ex.eval != nil {
		if v, ok := ex.eval.Eval(c); ok {
			ex.stats.ModelHits++
			if v == 1 {
				return ex.feasible(ex.ctx.Not(c)) == smt.Sat
			}
			return ex.feasible(c) == smt.Sat
		}
	}
	return ex.feasible(c) == smt.Sat && ex.feasible(ex.ctx.Not(c)) == smt.Sat
}

// truncPC shortens the path condition and forgets literals asserted beyond the mark.
func (ex *Exec) truncPC(mark int) {
	if len(ex.pc) == mark {
		return
	}
	ex.pc = ex.pc[:mark]
	for k, v := range ex.pcLits {
		if v > mark || -v > mark {
			delete(ex.pcLits, k)
		}
	}
}

var noMergeFn = os.Getenv("VERIF_NOMERGE_FN")

// noMergeIn: functions (substring match) in which branches are always forked, never merged.
func (ex *Exec) noMergeIn(fn string) bool {
	if noMergeFn != "" && strings.Contains(fn, noMergeFn) {
		return true
	}
	for _, f := range ex.cfg.NoMergeFns {
		if strings.Contains(fn, f) {
			return true
		}
	}
	return false
}
