package main

import (
	"encoding/json"
	"fmt"
	"os"
	"os/exec"
	"path/filepath"
	"regexp"
	"sort"
	"strconv"
	"strings"

	"golang.org/x/tools/go/ssa"
	"verif/engine/gosym"
)

// cmdSelftest validates the executor against natively compiled code on the conformance corpus.
func cmdSelftest(args []string) int {
	cd := &CheckDef{Pkgs: []string{"./zz_selftest"}}
	w, _, err := loadWorld(cd)
	if err != nil {
		fmt.Println("selftest load:", err)
		return 3
	}
	p := w.SSAPkgs["github.com/daeuniverse/dae/zz_selftest"]
	var fns []*ssa.Function
	var names []string
	for n, m := range p.Members {
		if f, ok := m.(*ssa.Function); ok && strings.HasPrefix(n, "Self_") {
			names = append(names, n)
			_ = f
		}
	}
	sort.Strings(names)
	for _, n := range names {
		fns = append(fns, p.Func(n))
	}
	cfg := gosym.Config{MaxIter: 100000, PanicIsViolation: true, Inputs: map[string]uint64{}}
	st, _, err := gosym.Explore(w, fns, cfg, 4)
	if err != nil {
		fmt.Println("selftest engine:", err)
		return 3
	}
	for k, n := range st.Unsupported {
		fmt.Printf("  UNSUPPORTED x%d: %s\n", n, k)
	}
	for _, v := range st.Violations {
		fmt.Printf("  engine panic in %s: %s %s @ %s\n", v.Harness, v.Name, v.Msg, v.Site)
	}
	// native
	scratch, _ := os.MkdirTemp("", "vselftest")
	defer os.RemoveAll(scratch)
	repl := map[string]string{}
	hdir := filepath.Join(verifDir, "harness", "go")
	for _, d := range []string{"zz_vs", "zz_selftest"} {
		ents, _ := os.ReadDir(filepath.Join(hdir, d))
		for _, e := range ents {
			repl[filepath.Join(repoDir, d, e.Name())] = filepath.Join(hdir, d, e.Name())
		}
	}
	ovb, _ := json.Marshal(map[string]interface{}{"Replace": repl})
	ovPath := filepath.Join(scratch, "overlay.json")
	os.WriteFile(ovPath, ovb, 0o644)
	bin := filepath.Join(scratch, "self.test")
	cmd := exec.Command("go", "test", "-tags", "dae_stub_ebpf,verif", "-overlay", ovPath, "-c", "-o", bin, "-vet=off", "./zz_selftest")
	cmd.Dir = repoDir
	cmd.Env = append(gosym.GoEnv(), "GOCACHE="+filepath.Join(verifDir, ".gocache"))
	if out, err := cmd.CombinedOutput(); err != nil {
		fmt.Printf("native build failed: %v\n%s\n", err, out)
		return 3
	}
	cmd = exec.Command(bin, "-test.run", "^TestSelfNative$", "-test.v")
	cmd.Dir = scratch
	out, err := cmd.CombinedOutput()
	if err != nil {
		fmt.Printf("native run failed: %v\n%s\n", err, out)
		return 3
	}
	re := regexp.MustCompile(`VS-EMIT (\S+)=(\d+)`)
	native := map[string]uint64{}
	for _, m := range re.FindAllStringSubmatch(string(out), -1) {
		v, _ := strconv.ParseUint(m[2], 10, 64)
		native[m[1]] = v
	}
	bad := 0
	var keys []string
	for k := range native {
		keys = append(keys, k)
	}
	sort.Strings(keys)
	for _, k := range keys {
		ev, ok := st.Emits[k]
		status := "ok"
		if !ok {
			status = "MISSING in engine"
			bad++
		} else if ev != native[k] {
			status = fmt.Sprintf("MISMATCH engine=%d", ev)
			bad++
		}
		fmt.Printf("  %-14s native=%-22d %s\n", k, native[k], status)
	}
	if bad > 0 || len(st.Unsupported) > 0 || len(native) == 0 {
		fmt.Println("selftest FAILED")
		return 1
	}
	fmt.Printf("selftest ok: %d corpus functions agree between go/ssa executor and native build\n", len(native))
	// schedule exploration: an expected violation (lost update with one preemption) and an expected pass
	sfns := []*ssa.Function{p.Func("Verif_Self_lost_update"), p.Func("Verif_Self_cas_ok")}
	scfg := gosym.Config{MaxIter: 200, PanicIsViolation: true}
	sst, sby, err := gosym.Explore(w, sfns, scfg, 4)
	if err != nil {
		fmt.Println("selftest engine (schedules):", err)
		return 3
	}
	_ = sst
	lost, okc := sby["Verif_Self_lost_update"], sby["Verif_Self_cas_ok"]
	found := false
	for _, v := range lost.Violations {
		if v.Inputs["preemptions"] == 1 {
			found = true
		} else {
			fmt.Println("selftest FAILED: lost update reported without a preemption")
			return 1
		}
	}
	if !found || len(okc.Violations) > 0 || okc.PathsDone < 2 {
		fmt.Printf("selftest FAILED: schedule exploration (lost update found=%v, CAS loop violations=%d paths=%d)\n", found, len(okc.Violations), okc.PathsDone)
		return 1
	}
	fmt.Printf("selftest ok: schedule exploration finds the lost update with one preemption (%d schedules) and none in the CAS loop (%d schedules)\n", lost.Paths, okc.Paths)
	return 0
}
