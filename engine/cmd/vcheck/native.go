package main

import (
	"encoding/json"
	"fmt"
	"go/ast"
	"go/parser"
	"go/token"
	"os"
	"os/exec"
	"path/filepath"
	"strings"

	"golang.org/x/tools/go/ssa"
	"verif/engine/gosym"
)

// nativeReplay runs the harness as an ordinary go test against the real build,
// with the harness files injected by -overlay (the repo is not touched).
func nativeReplay(cd *CheckDef, fn *ssa.Function, replayPath string) (string, error) {
	hdir := filepath.Join(verifDir, "harness", "go")
	scratch, err := os.MkdirTemp(filepath.Join(verifDir, ".scratch"), "replay")
	if err != nil {
		os.MkdirAll(filepath.Join(verifDir, ".scratch"), 0o755)
		scratch, err = os.MkdirTemp(filepath.Join(verifDir, ".scratch"), "replay")
		if err != nil {
			return "", err
		}
	}
	defer os.RemoveAll(scratch)
	repl := map[string]string{}
	pkgRel := strings.TrimPrefix(fn.Pkg.Pkg.Path(), "github.com/daeuniverse/dae")
	pkgRel = strings.TrimPrefix(pkgRel, "/")
	var names []string
	err = filepath.Walk(hdir, func(p string, fi os.FileInfo, err error) error {
		if err != nil || fi.IsDir() || !strings.HasSuffix(p, ".go") {
			return err
		}
		rel, _ := filepath.Rel(hdir, p)
		repl[filepath.Join(repoDir, rel)] = p
		if filepath.Dir(rel) == pkgRel || (pkgRel == "" && filepath.Dir(rel) == ".") {
			fset := token.NewFileSet()
			f, perr := parser.ParseFile(fset, p, nil, 0)
			if perr == nil {
				for _, d := range f.Decls {
					if fd, ok := d.(*ast.FuncDecl); ok && fd.Recv == nil && strings.HasPrefix(fd.Name.Name, "Verif_") &&
						fd.Type.Params.NumFields() == 0 && fd.Type.Results.NumFields() == 0 {
						names = append(names, fd.Name.Name)
					}
				}
			}
		}
		return nil
	})
	if err != nil {
		return "", err
	}
	if cd.Splice {
		sp, _, err := spliceOverlay(repoDir)
		if err != nil {
			return "", err
		}
		i := 0
		for virt, content := range sp {
			real := filepath.Join(scratch, fmt.Sprintf("splice%d.go", i))
			i++
			os.WriteFile(real, content, 0o644)
			repl[virt] = real
		}
	}
	var sb strings.Builder
	sb.WriteString("//go:build verif\n\npackage " + fn.Pkg.Pkg.Name() + "\n\nimport (\n\t\"testing\"\n\tvs \"github.com/daeuniverse/dae/zz_vs\"\n)\n\n")
	sb.WriteString("func TestVerifReplay(t *testing.T) {\n\tvs.ReplayMain(t, map[string]func(){\n")
	for _, n := range names {
		sb.WriteString("\t\t\"" + n + "\": " + n + ",\n")
	}
	sb.WriteString("\t})\n}\n")
	testFile := filepath.Join(scratch, "zz_verif_replay_test.go")
	os.WriteFile(testFile, []byte(sb.String()), 0o644)
	repl[filepath.Join(repoDir, pkgRel, "zz_verif_replay_test.go")] = testFile
	ovb, _ := json.Marshal(map[string]interface{}{"Replace": repl})
	ovPath := filepath.Join(scratch, "overlay.json")
	os.WriteFile(ovPath, ovb, 0o644)
	tags := cd.Tags
	if tags == "" {
		tags = "dae_stub_ebpf,verif"
	}
	cmd := exec.Command("go", "test", "-tags", tags, "-overlay", ovPath, "-run", "^TestVerifReplay$", "-count=1", "-vet=off", "-timeout", "300s", "-v", "./"+pkgRel)
	cmd.Dir = repoDir
	cmd.Env = append(gosym.GoEnv(), "VERIF_REPLAY="+replayPath, "GOCACHE="+filepath.Join(verifDir, ".gocache"))
	out, err := cmd.CombinedOutput()
	return string(out), err
}
