package main

import (
	"encoding/json"
	"fmt"
	"os"
	"path/filepath"
	"sort"
)

var allProperties = []string{"C01", "C02", "C03", "C04", "C05", "C06", "C07", "C08", "C09", "C10", "C11", "C12", "C13", "C14", "C15", "C16", "C17", "C18", "C19", "C20"}

// notApplicable: reason per property that is not (yet) claimed.
var notApplicable = map[string]string{
	"C02": "the kernel half of the property is the eBPF program control/kern/tproxy.c; its headers (git submodule control/kern/headers -> dae_bpf_headers) are not in the sandbox and cannot be fetched, so clang cannot produce the LLVM IR the C-side symbolic executor (DESIGN.md E2) was to run on; encoding a hand transcription of route() instead would not be checking the real code. The userspace half (rule compilation and first-match evaluation) is covered under C01.",
	"C03": "every function the property is about (the four TC entry programs, packet parsing, per-flow state, redirect) lives in control/kern/tproxy.c, which cannot be compiled to IR here: the BPF headers submodule is absent and there is no network (see C02); no solver-based check of the real code is possible.",
	"C19": "the property relates Go declarations to the C declarations and constants in control/kern/tproxy.c and to the bpf2go output of the real build; neither the C side (headers submodule absent, cannot compile) nor the generated Go (bpf2go needs the compiled object) exists in the sandbox, so the layouts cannot be extracted from real code for a solver query.",
}

const baselineOff = "cd /repo && go test -vet=off -count=1 -timeout 25m ./... 2>&1 | grep -v '^FAIL\\|build failed' ; true"

func cmdManifest() int {
	type lvl struct {
		Category  string `json:"category"`
		Text      string `json:"text"`
		DesignRef string `json:"design_ref,omitempty"`
	}
	type chk struct {
		PropertyID string `json:"property_id"`
		Quick      string `json:"quick_cmd"`
		Thorough   string `json:"thorough_cmd"`
		Evidence   string `json:"evidence_file"`
		Replay     string `json:"replay_cmd_template"`
		Engine     string `json:"engine"`
		Level      lvl    `json:"level_claimed"`
		Note       string `json:"level_note"`
		Technique  string `json:"technique"`
	}
	var cs []chk
	var served []string
	for _, id := range checkIDs() {
		cd := checks[id]
		if cd.Hidden {
			continue
		}
		served = append(served, id)
		cs = append(cs, chk{
			PropertyID: id,
			Quick:      "./check " + id + " quick",
			Thorough:   "./check " + id + " thorough",
			Evidence:   "/verif/evidence/" + id + ".json",
			Replay:     "./check " + id + " --replay {path}",
			Engine:     "gosym",
			Level:      lvl{Category: cd.Level, Text: cd.LevelText, DesignRef: "DESIGN.md §4/" + id},
			Note:       cd.LevelNote,
			Technique:  cd.Technique,
		})
	}
	type na struct {
		PropertyID string `json:"property_id"`
		Reason     string `json:"reason"`
	}
	var nas []na
	for _, id := range allProperties {
		if c := checks[id]; c != nil && !c.Hidden {
			continue
		}
		r := notApplicable[id]
		if r == "" {
			r = "no solver-based check of this property runs clean yet (see DESIGN.md); not claimed"
		}
		nas = append(nas, na{id, r})
	}
	sort.Slice(nas, func(i, j int) bool { return nas[i].PropertyID < nas[j].PropertyID })
	m := map[string]interface{}{
		"version":   1,
		"setup_cmd": "cd /verif/engine && PATH=/opt/veriftools/go1.26.8/bin:$PATH GOTOOLCHAIN=local GOFLAGS=-mod=mod GOPROXY=off GOCACHE=/verif/.gocache go build -o /verif/bin/vcheck ./cmd/vcheck && /verif/bin/vcheck list >/dev/null",
		"hooks": map[string]interface{}{
			"guard":            "verif",
			"enable":           "harness files (//go:build verif) are injected by go/packages and go test overlays with -tags dae_stub_ebpf,verif; nothing under /repo is guarded by the tag",
			"baseline_off_cmd": baselineOff,
			"source_commits":   []string{},
			"add_only":         true,
		},
		"engines": []map[string]interface{}{{
			"name": "gosym", "path": "/verif/engine", "serves_properties": served,
			"kind_free_text": "symbolic executor for Go over go/ssa (x/tools v0.50.0) with SMT-LIB2 back end (z3 4.8.12): inputs are bit-vector variables, every obligation is discharged by the solver for all inputs within the stated bounds, counterexamples are replayed concretely and natively",
		}},
		"checks":         cs,
		"not_applicable": nas,
		"notes":          "Solver-based checking of the real code; bounds, stubs and what lies outside each claim are in DESIGN.md and in each evidence file. Exit 3 = inconclusive (never reported as success).",
	}
	b, _ := json.MarshalIndent(m, "", " ")
	if err := os.WriteFile(filepath.Join(verifDir, "MANIFEST.json"), append(b, '\n'), 0o644); err != nil {
		fmt.Fprintln(os.Stderr, err)
		return 2
	}
	fmt.Printf("MANIFEST.json: %d checks, %d not applicable\n", len(cs), len(nas))
	return 0
}
