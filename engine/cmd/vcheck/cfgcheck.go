package main

import (
	"bufio"
	"fmt"
	"go/token"
	"go/types"
	"os/exec"
	"sort"
	"strconv"
	"strings"
	"time"

	"golang.org/x/tools/go/ssa"
	"golang.org/x/tools/go/ssa/ssautil"
	"verif/engine/gosym"
)

// A CFGCheck is a solver query over the control-flow graph of one real function (its go/ssa form),
// with data abstracted away: branch conditions are free, only the order and number of calls to a
// given set of functions along a walk matters. It answers "is there a walk through one iteration of
// the loop (from the loop body's entry back to the loop header, up to 2x the number of blocks) on
// which the number of release calls differs from one?" - unsat means every way round the loop
// releases exactly once, sat yields the walk as a list of source lines.
type CFGCheck struct {
	Name      string   // obligation name
	Pkg       string   // package path suffix, e.g. "cmd"
	Contains  string   // the function is the one (anonymous functions included) that calls this callee
	RangeOver string   // the loop is the range over a channel whose element type has this name
	Release   []string // callees counted (suffix match on the full name)
	// Alternative anchoring (when RangeOver is empty): the walk starts at the true-successor of the
	// block that branches on <something>.<StartIfLoadField>.Load() and ends at the select statement
	// that dominates it (the enclosing event loop).
	StartIfLoadField string
}

type cfgResult struct {
	Name     string
	Func     string
	Blocks   int
	Edges    int
	Steps    int
	Queries  int
	Solver   time.Duration
	Holds    bool
	Err      string
	Walk     []string // witness, as "file:line (block n) [release: callee]" lines
	Releases int
}

func allFuncs(p *ssa.Package) []*ssa.Function {
	var out []*ssa.Function
	for f := range ssautil.AllFunctions(p.Prog) {
		if f.Pkg == p {
			out = append(out, f)
		}
	}
	sort.Slice(out, func(i, j int) bool { return out[i].String() < out[j].String() })
	return out
}

func calleeName(c ssa.CallInstruction) string {
	if f := c.Common().StaticCallee(); f != nil {
		return f.String()
	}
	return ""
}

func runCFGCheck(w *gosym.World, ck CFGCheck) *cfgResult {
	res := &cfgResult{Name: ck.Name}
	var pkg *ssa.Package
	for path, p := range w.SSAPkgs {
		if path == "github.com/daeuniverse/dae/"+ck.Pkg {
			pkg = p
		}
	}
	if pkg == nil {
		res.Err = "package not loaded: " + ck.Pkg
		return res
	}
	pkg.Build()
	var fn *ssa.Function
	for _, f := range allFuncs(pkg) {
		if strings.Contains(w.Prog.Fset.Position(f.Pos()).Filename, "/zz_") {
			continue // harness code
		}
		for _, b := range f.Blocks {
			for _, in := range b.Instrs {
				if c, ok := in.(ssa.CallInstruction); ok && strings.HasSuffix(calleeName(c), ck.Contains) {
					fn = f
				}
			}
		}
	}
	if fn == nil {
		nf, nb := 0, 0
		for _, f := range allFuncs(pkg) {
			nf++
			nb += len(f.Blocks)
		}
		names := ""
		for _, f := range allFuncs(pkg) {
			if strings.Contains(f.String(), "Run") {
				names += fmt.Sprintf(" %s:%d/%d", f.String(), len(f.Blocks), len(f.AnonFuncs))
			}
		}
		res.Err = fmt.Sprintf("no function calls %s (%d functions, %d blocks in %s)%s", ck.Contains, nf, nb, pkg.Pkg.Path(), names)
		return res
	}
	res.Func = fn.String()
	var header, entry *ssa.BasicBlock
	if ck.RangeOver != "" {
		// loop header: the block with the comma-ok receive of the ranged channel
		for _, b := range fn.Blocks {
			for _, in := range b.Instrs {
				if u, ok := in.(*ssa.UnOp); ok && u.Op == token.ARROW && u.CommaOk && strings.Contains(u.X.Type().String(), ck.RangeOver) {
					header = b
				}
			}
		}
		if header == nil || len(header.Succs) != 2 {
			res.Err = "loop header (range over chan " + ck.RangeOver + ") not found in " + fn.String()
			return res
		}
		entry = header.Succs[0]
	} else {
		for _, b := range fn.Blocks {
			for _, in := range b.Instrs {
				c, ok := in.(*ssa.Call)
				if !ok || !strings.HasSuffix(calleeName(c), ".Load") || len(c.Call.Args) == 0 {
					continue
				}
				fa, ok := c.Call.Args[0].(*ssa.FieldAddr)
				if !ok {
					continue
				}
				st, ok := fa.X.Type().Underlying().(*types.Pointer).Elem().Underlying().(*types.Struct)
				if !ok || st.Field(fa.Field).Name() != ck.StartIfLoadField {
					continue
				}
				if iff, ok := b.Instrs[len(b.Instrs)-1].(*ssa.If); ok && iff.Cond == ssa.Value(c) {
					entry = b.Succs[0]
				}
			}
		}
		if entry == nil {
			res.Err = "no branch on ." + ck.StartIfLoadField + ".Load() in " + fn.String()
			return res
		}
		for _, b := range fn.Blocks {
			for _, in := range b.Instrs {
				if sel, ok := in.(*ssa.Select); ok && sel.Blocking && len(sel.States) >= 2 && b.Dominates(entry) {
					header = b
				}
			}
		}
		if header == nil {
			res.Err = "no enclosing select dominating the start block in " + fn.String()
			return res
		}
	}
	// release count per block
	rel := map[int]int{}
	relWhat := map[int][]string{}
	for _, b := range fn.Blocks {
		for _, in := range b.Instrs {
			c, ok := in.(ssa.CallInstruction)
			if !ok {
				continue
			}
			if _, isDefer := in.(*ssa.Defer); isDefer {
				continue
			}
			n := calleeName(c)
			for _, r := range ck.Release {
				if strings.HasSuffix(n, r) {
					rel[b.Index]++
					relWhat[b.Index] = append(relWhat[b.Index], r+" @ "+w.Prog.Fset.Position(in.Pos()).String())
				}
			}
		}
	}
	// blocks on some walk entry -> header (forward reachable without passing the header, and co-reachable)
	fwd := map[int]bool{}
	var dfs func(b *ssa.BasicBlock)
	dfs = func(b *ssa.BasicBlock) {
		if fwd[b.Index] {
			return
		}
		fwd[b.Index] = true
		if b == header {
			return
		}
		for _, s := range b.Succs {
			dfs(s)
		}
	}
	dfs(entry)
	back := map[int]bool{}
	var rdfs func(b *ssa.BasicBlock)
	rdfs = func(b *ssa.BasicBlock) {
		if back[b.Index] {
			return
		}
		back[b.Index] = true
		for _, p := range b.Preds {
			if p != header {
				rdfs(p)
			}
		}
	}
	rdfs(header)
	var nodes []int
	for i := range fn.Blocks {
		if fwd[i] && back[i] {
			nodes = append(nodes, i)
		}
	}
	sort.Ints(nodes)
	type edge struct{ a, b int }
	var edges []edge
	for _, i := range nodes {
		if i == header.Index {
			continue
		}
		for _, s := range fn.Blocks[i].Succs {
			if fwd[s.Index] && back[s.Index] {
				edges = append(edges, edge{i, s.Index})
			}
		}
	}
	res.Blocks, res.Edges = len(nodes), len(edges)
	L := 2 * len(nodes)
	res.Steps = L
	// SMT: p_0..p_L block ids, c_i running release count (saturating at 3)
	var sb strings.Builder
	sb.WriteString("(set-option :produce-models true)\n")
	for i := 0; i <= L; i++ {
		fmt.Fprintf(&sb, "(declare-const p%d Int)\n(declare-const c%d Int)\n", i, i)
	}
	relOf := func(v string) string {
		e := "0"
		for _, n := range nodes {
			if rel[n] > 0 {
				e = fmt.Sprintf("(ite (= %s %d) %d %s)", v, n, rel[n], e)
			}
		}
		return e
	}
	fmt.Fprintf(&sb, "(assert (= p0 %d))\n(assert (= c0 %s))\n", entry.Index, relOf("p0"))
	for i := 0; i < L; i++ {
		var alts []string
		// stay at the header once reached
		alts = append(alts, fmt.Sprintf("(and (= p%d %d) (= p%d %d) (= c%d c%d))", i, header.Index, i+1, header.Index, i+1, i))
		for _, e := range edges {
			alts = append(alts, fmt.Sprintf("(and (= p%d %d) (= p%d %d))", i, e.a, i+1, e.b))
		}
		fmt.Fprintf(&sb, "(assert (or %s))\n", strings.Join(alts, " "))
		fmt.Fprintf(&sb, "(assert (=> (not (= p%d %d)) (= c%d (+ c%d %s))))\n", i, header.Index, i+1, i, relOf(fmt.Sprintf("p%d", i+1)))
	}
	fmt.Fprintf(&sb, "(assert (= p%d %d))\n(assert (not (= c%d 1)))\n(check-sat)\n", L, header.Index, L)
	var gets []string
	for i := 0; i <= L; i++ {
		gets = append(gets, fmt.Sprintf("p%d", i))
	}
	fmt.Fprintf(&sb, "(get-value (%s c%d))\n", strings.Join(gets, " "), L)
	t0 := time.Now()
	cmd := exec.Command("z3", "-in", "-T:120")
	cmd.Stdin = strings.NewReader(sb.String())
	out, _ := cmd.CombinedOutput()
	res.Solver = time.Since(t0)
	res.Queries = 1
	sc := bufio.NewScanner(strings.NewReader(string(out)))
	sc.Buffer(make([]byte, 1<<20), 1<<24)
	verdict := ""
	if sc.Scan() {
		verdict = strings.TrimSpace(sc.Text())
	}
	switch verdict {
	case "unsat":
		res.Holds = true
		return res
	case "sat":
	default:
		res.Err = "solver: " + verdict
		if strings.Contains(string(out), "(error") {
			res.Err += " " + string(out)
		}
		return res
	}
	// witness
	rest := string(out)
	vals := map[string]int{}
	toks := strings.FieldsFunc(rest, func(r rune) bool { return r == '(' || r == ')' || r == ' ' || r == '\n' })
	for i := 0; i+1 < len(toks); i++ {
		if (strings.HasPrefix(toks[i], "p") || strings.HasPrefix(toks[i], "c")) && len(toks[i]) > 1 {
			if _, err := strconv.Atoi(toks[i][1:]); err == nil {
				if v, err := strconv.Atoi(toks[i+1]); err == nil {
					vals[toks[i]] = v
				}
			}
		}
	}
	// re-walk the witness concretely against the real CFG
	cnt := 0
	prev := -1
	for i := 0; i <= L; i++ {
		b := vals[fmt.Sprintf("p%d", i)]
		if prev == header.Index {
			break
		}
		if prev >= 0 {
			okEdge := false
			for _, s := range fn.Blocks[prev].Succs {
				if s.Index == b {
					okEdge = true
				}
			}
			if !okEdge {
				res.Err = fmt.Sprintf("witness does not follow the CFG (%d -> %d)", prev, b)
				return res
			}
		}
		cnt += rel[b]
		line := ""
		for _, in := range fn.Blocks[b].Instrs {
			if in.Pos().IsValid() {
				line = w.Prog.Fset.Position(in.Pos()).String()
				break
			}
		}
		s := fmt.Sprintf("block %d %s %s", b, fn.Blocks[b].Comment, line)
		for _, r := range relWhat[b] {
			s += " [release: " + r + "]"
		}
		res.Walk = append(res.Walk, s)
		prev = b
	}
	res.Releases = cnt
	if cnt == 1 {
		res.Err = "witness re-walk counts exactly one release: encoding problem"
	}
	return res
}
