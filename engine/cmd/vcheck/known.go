package main

import (
	"encoding/json"
	"os"
	"path/filepath"

	"verif/engine/gosym"
)

// KnownFinding is one entry of /verif/known_findings.json (never written at run time).
type KnownFinding struct {
	Property   string            `json:"property"`
	Status     string            `json:"status"` // known | fixed
	ID         string            `json:"id"`
	Harness    string            `json:"harness"`
	Obligation string            `json:"obligation"`
	When       map[string]uint64 `json:"when,omitempty"` // inputs that identify this failing case
	What       string            `json:"what"`
	Commit     string            `json:"commit,omitempty"`
}

type knownSet struct{ list []*KnownFinding }

func loadKnownFindings(id string) *knownSet {
	ks := &knownSet{}
	b, err := os.ReadFile(filepath.Join(verifDir, "known_findings.json"))
	if err != nil {
		return ks
	}
	var all []*KnownFinding
	if json.Unmarshal(b, &all) != nil {
		return ks
	}
	for _, k := range all {
		if k.Property == id && k.Status == "known" {
			ks.list = append(ks.list, k)
		}
	}
	return ks
}

func (ks *knownSet) match(v *gosym.Violation) *KnownFinding {
	for _, k := range ks.list {
		if k.Harness != v.Harness || k.Obligation != v.Name {
			continue
		}
		ok := true
		for in, val := range k.When {
			if v.Inputs[in] != val {
				ok = false
			}
		}
		if ok {
			return k
		}
	}
	return nil
}
