package main

import "time"

// CheckDef describes one property's check: packages, harness entry points, bounds.
type CheckDef struct {
	Pkgs           []string
	Tags           string
	Splice         bool     // splice the real encoders of control/bpf_utils.go over the stub build
	Harness        []string // "<pkg rel path>:<Func>"; run in both tiers
	Thorough       []string // additional harnesses for the thorough tier
	MaxIter        int
	Stubs          map[string]string
	QuickBudget    time.Duration
	ThoroughBudget time.Duration
	Level          string
	Explanation    string
	Bounds         map[string]string // tier -> bounds text
	Outside        []string
	Assumptions    []string
}

var checks = map[string]*CheckDef{}

func checkIDs() []string {
	var ids []string
	for id := range checks {
		ids = append(ids, id)
	}
	sortStrings(ids)
	return ids
}
