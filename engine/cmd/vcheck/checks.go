package main

import "time"

// CheckDef describes one property's check: packages, harness entry points, bounds.
type CheckDef struct {
	Pkgs           []string
	Tags           string
	Splice         bool     // splice the real encoders of control/bpf_utils.go over the stub build
	Harness        []string // "<pkg rel path>:<Func>"; run in both tiers
	Thorough       []string // additional harnesses for the thorough tier
	MaxIter        int
	QueryMs        int // primary solver per-query timeout (0 = default)
	Stubs          map[string]string
	QuickBudget    time.Duration
	ThoroughBudget time.Duration
	Level          string
	LevelText      string
	LevelNote      string
	Technique      string
	Hidden         bool
	CFG            []CFGCheck
	NoMergeFns     []string
	Explanation    string
	Bounds         map[string]string // tier -> bounds text
	Outside        []string
	Assumptions    []string
}

var checks = map[string]*CheckDef{}

func checkIDs() []string {
	var ids []string
	for id := range checks {
		ids = append(ids, id)
	}
	sortStrings(ids)
	return ids
}

const techniqueText = "bounded symbolic execution of the real Go code (go/ssa) with SMT (z3) discharge of every obligation; counterexamples replayed on the real build"

func init() {
	checks["C12"] = &CheckDef{
		Pkgs:        []string{"./control"},
		Splice:      true,
		Harness:     []string{"control:Verif_C12_single_prefix", "control:Verif_C12_dedup", "control:Verif_C12_ring_index"},
		MaxIter:     2000,
		Level:       "other",
		LevelText:   "For one prefix of any family with all 128 address bits and all 128 probe bits symbolic, the solver shows that the real userspace trie (NewTrieFromPrefixes/HasPrefix/Prefix2bin128) and the real kernel LPM key (cidrToBpfLpmKey, spliced from bpf_utils.go) both decide exactly CIDR containment on the IPv4-mapped form. This is a statement about every address and probe inside the bound, which tests can only sample; it is bounded (lengths listed per tier) and therefore not a proof. Also: two rules over look-alike prefix sets (same numeric length and 16-byte form in different families, the same addresses in both forms, equal sets, the default routes) through the real builder with de-duplication, for an arbitrary destination; and the ring-slot rewrite of set indices for the kernel (rewriteKernRulesWithRingLpmIndex) for every rule kind with symbolic set index, ring start and set count.",
		LevelNote:   "Trusted: go/ssa, the executor, z3, the bitwise containment spec in the harness, the kernel LPM trie's longest-prefix rule (modelled as 'first PrefixLen bits of the key bytes equal'), a warm byte-buffer pool. Quick tier: boundary prefix lengths only; thorough: all lengths 0..128 / 0..32.",
		Technique:   techniqueText,
		Explanation: "Bounded symbolic execution of the real trie / LPM-key code from go/ssa against a bitwise containment specification.",
		Bounds:      map[string]string{"quick": "one prefix; v6/IPv4-mapped lengths {0,1,7,8,9,31,32,33,64,95,96,97,104,127,128}, v4 lengths {0,1,8,9,24,31,32}; all address and probe bits symbolic", "thorough": "one prefix, every length 0..128 (v6) and 0..32 (v4); all address and probe bits symbolic"},
		Outside:     []string{"kernel LPM trie implementation (contract only)", "geodata-scale sets"},
		Assumptions: []string{"sync.Pool hands out a warm buffer (capacity 512)", "kernel LPM lookup = longest-prefix rule over key bytes"},
		QuickBudget: 8 * time.Minute, ThoroughBudget: 20 * time.Minute,
	}
	checks["C18"] = &CheckDef{
		Pkgs:        []string{"./control"},
		Harness:     []string{"control:Verif_C18_table", "control:Verif_C18_strings", "control:Verif_C18_rerouted", "control:Verif_C18_probe"},
		MaxIter:     400,
		Level:       "other",
		LevelText:   "The real ControlPlane.ChooseDialTarget is executed symbolically for every combination of dial mode, outbound kind, presence of a sniffed name and what the DNS controller / real-domain cache know (symbolic booleans), and for every sniffed string up to the bound over the alphabet {1 . : [ ] a} with symbolic bytes through the real isIPLikeDomain, netip.ParseAddr, net.SplitHostPort and net.JoinHostPort; the solver discharges the decision-table and well-formedness obligations on every path. Also the real chooseProxyDialer with Route and the group's dialer selection replaced by arbitrary results: for a flow routed again in userspace the target dialled is the one ChooseDialTarget prescribes for the outbound finally used (3 kernel outbounds x 2 re-routed outbounds x 4 dial modes x name present or not). And the real verification probe (probeAndUpdateRealDomain) with both address-family lookups ending symbolically in an address, an empty answer or an error: the name is verified exactly when an address was found.",
		LevelNote:   "Trusted: go/ssa, executor, z3. Environment replaced by symbolic stubs: DnsController.HasDnsKnowledge/cacheKey, lookupRealDomainCache, triggerRealDomainProbe (counted). Destination fixed to 10.1.2.3 with ports {1,443,65535}; strings up to 4 (quick) / 6 (thorough) bytes. Whether domain mode re-routes is not constrained (the property does not state it).",
		Technique:   techniqueText,
		Explanation: "Bounded symbolic execution of ChooseDialTarget and the string normalisation it performs.",
		Bounds:      map[string]string{"quick": "full decision table (4 modes x 7 outbounds x 4 names x 8 knowledge states x 3 ports); sniffed strings of <=4 symbolic bytes over a 6-letter alphabet, 3 name-using modes", "thorough": "same table; strings of <=6 symbolic bytes"},
		Outside:     []string{"strings longer than the bound or using other characters", "the re-route itself (Route is C01)"},
		Assumptions: []string{"HasDnsKnowledge / real-domain cache answers are arbitrary booleans", "logger is a no-op"},
		QuickBudget: 8 * time.Minute, ThoroughBudget: 20 * time.Minute,
	}
	checks["C14"] = &CheckDef{
		Pkgs:        []string{"./component/outbound"},
		Harness:     []string{"component/outbound:Verif_C14_filter", "component/outbound:Verif_C14_invalid", "component/outbound:Verif_C14_first_invalid", "component/outbound:Verif_C14_policy"},
		MaxIter:     400,
		Level:       "other",
		LevelText:   "The real DialerSet.FilterAndAnnotate / filterHit / dialer.NewAnnotation / NewDialerSelectionPolicyFromGroupParam are executed symbolically over node pools with symbolic names and subscription tags and filter definitions whose shape (lines, '&&' conditions, values, keys, negation, annotations) is chosen by the solver-explored decision tree; on every path the member list, its order, uniqueness and the annotation of the first selecting line are compared with a direct evaluation of the statement, and an invalid element yields an error exactly when it is examined.",
		LevelNote:   "Trusted: go/ssa, executor, z3, the specification in the harness. regexp2 is used through a contract (Compile fails for patterns marked bad; MatchString is an uninterpreted predicate of pattern and subject); time.ParseDuration runs for real on concrete annotation values. Names are 2 symbolic bytes over {a,b}, tags 1 byte; bounds on shapes per tier below.",
		Technique:   techniqueText,
		Explanation: "Bounded symbolic execution of DialerSet.FilterAndAnnotate / filterHit / NewAnnotation / NewDialerSelectionPolicyFromGroupParam.",
		Bounds:      map[string]string{"quick": "2 nodes; shapes: no filter | 1 line x 1 condition x <=2 values | 2 lines x 1 condition x 1 value | 1 line x 2 conditions x 1 value; inputs name/subtag, keys exact/keyword/regex, negation symbolic, 1 regex pattern; invalid-element harness: 8 kinds at fixed positions (annotations alone and after a valid entry); policy: 7 names x negation x 0-2 parameters (plain or keyed, 6 spellings)", "thorough": "3 nodes; adds 2 lines x <=2 values, 2 lines x 2 conditions x <=2 values, 2 regex patterns"},
		Outside:     []string{"regexp2's own matching", "names longer than 2 bytes / other characters (matching is by equality and substring on symbolic bytes)", "NewDialerSetFromLinks (node link parsing)"},
		Assumptions: []string{"regexp2.Compile/MatchString by contract", "Dialer.Property() returns the harness's property object"},
		QuickBudget: 8 * time.Minute, ThoroughBudget: 20 * time.Minute,
	}
	checks["C08"] = &CheckDef{
		Pkgs:        []string{"./control"},
		Harness:     []string{"control:Verif_C08_lookup", "control:Verif_C08_fixed_ttl_case", "control:Verif_C08_concurrent_lookups", "control:Verif_C08_janitor", "control:Verif_C08_lru", "control:Verif_C08_reload"},
		MaxIter:     400,
		Level:       "other",
		LevelText:   "Entries are created only through the real production insert path (UpdateDnsCacheTtlWithKey -> __updateDnsCacheDeadline with the NewCache closure of ControlPlane.dnsControllerOption and prepackResponseBeforeStore); every instant (insert, lookups, janitor), every TTL, and the optimistic/stale/fixed-TTL/size knobs are bit-vector variables. The solver shows for all of them: exact scoping of keys, served iff fresh or (optimistic and inside the stale window), exactly one refresh request per stale period, shown TTL >= 1 and <= remaining + 1 + 15 s, janitor removes exactly the run-out entries, LRU evicts exactly the least recently used, reload clone keeps deadline/packed TTL. 64-bit division by 10^9 is decided by cvc5 --solve-bv-as-int when z3 gives up.",
		LevelNote:   "Trusted: go/ssa, executor, z3/cvc5, harness spec. time.Time is abstracted to one int64 Unix-nanosecond instant (DESIGN 2.6); miekg/dns wire packing is replaced by an opaque blob that remembers the TTL it was packed with; kernel-table side effects (C10) are no-ops; clocks are arbitrary non-decreasing instants below 2^61 ns.",
		Technique:   techniqueText,
		Explanation: "Bounded symbolic execution of the DNS cache insert, lookup, janitor, LRU and reload-clone code with symbolic instants.",
		Bounds:      map[string]string{"quick": "concurrent_lookups: 2 racing lookups of one entry (ttl 300), arbitrary instants, 1 preemption at atomic operations; fixed_ttl_case: one insert of an answer to the name spelled 4 ways (case, final dot), symbolic fixed ttl and record ttl; lookup: 1 entry, 1 insert + <=2 lookups at arbitrary instants, ttl 0..31536000, stale window 0..3600 s, fixed ttl 0..86400; janitor: 2 entries, 1 pass; LRU: 4 entries with arbitrary distinct access times, limit 1..3; reload: 1 clone", "thorough": "same with LRU over 6 entries"},
		Outside:     []string{"DNS wire packing (miekg/dns)", "more than two concurrent lookups / more than one preemption (concurrent_lookups: 2 lookups of one fresh entry, 1 preemption); the stale-refresh flag under concurrency (a CAS; sequential here)", "async BPF update worker"},
		Assumptions: []string{"time.Time abstraction: Unix nanoseconds, no zones", "Msg.Pack replaced by TTL-carrying blob", "clock non-decreasing, < 2^61 ns"},
		QuickBudget: 8 * time.Minute, ThoroughBudget: 20 * time.Minute,
	}
	checks["C15"] = &CheckDef{
		Pkgs:        []string{"./component/outbound"},
		Harness:     []string{"component/outbound/dialer:Verif_C15_min_2nodes", "component/outbound/dialer:Verif_C15_min_3nodes", "component/outbound/dialer:Verif_C15_random", "component/outbound/dialer:Verif_C15_policy_switch", "component/outbound:Verif_C15_group_select"},
		MaxIter:     400,
		QueryMs:     1500,
		Level:       "other",
		LevelText:   "Histories of NotifyLatencyChange events (which node, alive or not, measured or not, latency, per-node offsets and the tolerance all symbolic) are run through the real AliveDialerSet from its constructor; after every event the solver shows that Len/GetMinLatency/GetRandExcluded agree with a ghost alive-set, that no measured alive node beats the chosen one by the tolerance or more, that the choice moved only for the reasons the statement lists, and that exclusion is honoured. The real DialerGroup.SelectWithExclusionResult/_select/selectionNetworkTypes run over six health domains with symbolic alive flags for every policy, requested type, strictness and excluded node. Also a run-time switch of the selection policy (from random or another min policy to min-last-latency) after nodes were measured: the first choice after the switch obeys the same rule (offsets included).",
		LevelNote:   "Trusted: go/ssa, executor, z3/cvc5, harness spec. Dialer.snapshotLatencyForPolicy and MustGetAlive are replaced by the harness's ghost tables (a node once measured stays measured); fastrand is an arbitrary in-range value; logging is a no-op. Bounded histories from construction (no inductive invariant is assumed). Group callbacks (edge reporting) belong to C16 and are not asserted here.",
		Technique:   techniqueText,
		Explanation: "Bounded symbolic execution of AliveDialerSet and DialerGroup selection.",
		Bounds:      map[string]string{"quick": "min policy: 2 nodes x 3 events and 3 nodes x 2 events (first event on node 0 by symmetry), latencies 0..10 s, offsets -10 s..2 h (negative offsets and sums beyond one hour included), tolerance 0..2 h; random: 3 nodes x 3 events; group select: 1-2 nodes, policies random/min/fixed(0,1,-1), requested in {data-udp4, tcp6, dns-udp4}, strict and non-strict, any excluded node, alive flags of every consulted domain symbolic", "thorough": "min policy: 2 nodes x 5 events, 3 nodes x 4 events; group select: all six requested types"},
		Outside:     []string{"min_avg10 / min_moving_avg differ from min only in snapshotLatencyForPolicy (stubbed)", "SetSelectionPolicy at run time", "concurrent notifications (mutex-protected)"},
		Assumptions: []string{"a measured node keeps having a measurement", "fastrand arbitrary", "untried health domains are set alive (adversarial)"},
		QuickBudget: 8 * time.Minute, ThoroughBudget: 20 * time.Minute,
	}
	checks["C16"] = &CheckDef{
		Pkgs:        []string{"./component/outbound", "./control"},
		Harness:     []string{"component/outbound/dialer:Verif_C16_thresholds", "component/outbound/dialer:Verif_C16_shared_node", "component/outbound/dialer:Verif_C16_suppression", "component/outbound/dialer:Verif_C16_snapshot", "component/outbound/dialer:Verif_C16_escalation", "control:Verif_C16_shared_floor"},
		MaxIter:     400,
		Level:       "other",
		LevelText:   "The real health state machine of dialer.Dialer (markAvailable, markUnavailableInternal, markAvailableTraffic, ReportUnavailable*, ReportAvailableTraffic, informDialerGroupUpdate, notifyAliveTransition, RegisterAliveDialerSet) together with the real AliveDialerSet is executed from counters holding an arbitrary number of consecutive failures below the thresholds, through histories of arbitrary events in each of the seven network types; a three-field monitor written from the statement (consecutive probe failures, consecutive traffic failures, alive; thresholds 1/3/10/50) is compared after every event, as are transition callbacks (edges only), what each group containing the node sees, and the latency group's kernel connectivity bit. Reload muting (Begin/EndReloadProxyFailureSuppression) and snapshot/restore are checked with the same objects. Also the documented escalation with the real per-address tracker (recordProxyFailure / recordProxySuccess, markUnavailableFromProxyFailure): probe histories over three domains of a proxy node - every unforced death counts towards the address, any successful probe clears the count, the third death without a success in between takes all six domains down; all six domains are compared with the model after every event.",
		LevelNote:   "Trusted: go/ssa, executor, z3, the monitor in the harness. NotifyHealthCheckResult (recovery back-off, sticky-IP cache) and the recovery manager's snapshot are stubbed out; probes are represented by the calls Dialer.check makes on success/failure; one node (plus a second in the shared-node harness). The connectivity map write (key = outbound*6+domain*2+family) is C19's subject; here the group callback is the observable.",
		Technique:   techniqueText,
		Explanation: "Bounded symbolic execution of the dialer health state machine against a threshold monitor.",
		Bounds:      map[string]string{"quick": "thresholds: 7 network types x arbitrary initial consecutive-failure counts x 3 events of 7 kinds; shared node: 6 types x 3 events of 4 kinds, 2 groups; suppression: nested scopes, 3 muted failures then forced; snapshot: 6 arbitrary alive flags and counts; shared_floor: reload hand-over over 2 groups sharing a node (3 nodes, arbitrary dead flags for tcp4, either group order)", "thorough": "thresholds with 4 events"},
		Outside:     []string{"proxy-address escalation beyond the escalation harness (3 health domains of one node, 4 events quick / 5 thorough; the 10-minute window does not expire in it)", "probe I/O, recovery back-off timers", "EnsureReloadSelectionFloor (group level)"},
		Assumptions: []string{"NotifyHealthCheckResult is a no-op", "latency of a successful probe 1ns..5s"},
		QuickBudget: 8 * time.Minute, ThoroughBudget: 20 * time.Minute,
	}
	checks["C04"] = &CheckDef{
		Pkgs:        []string{"./component/routing"},
		Harness:     []string{"component/routing:Verif_C04_routing", "component/routing:Verif_C04_domain", "component/routing:Verif_C04_dns", "component/routing:Verif_C04_geosite_expand"},
		MaxIter:     400,
		Level:       "other",
		LevelText:   "Rule lists of symbolic shape are passed through the real ApplyRulesOptimizers with the real AliasOptimizer, DatReaderOptimizer.Optimize (loader stubbed), MergeAndSortRulesOptimizer and DeduplicateParamsOptimizer - the traffic pipeline and the DNS pipelines (no alias). The meaning of the list before and after is evaluated on the AST as one SMT term each, over an arbitrary truth assignment of the atoms (canonical function, canonical key, value); the solver shows the two decisions (outbound including its parameters, or fallback) equal for every assignment.",
		LevelNote:   "Trusted: go/ssa, executor, z3, the first-match evaluator in the harness. geodata files are replaced by fixed expansions; mohae/deepcopy by the executor's structural copy; atoms are free booleans (the link from atoms to packets is C01/C07/C11/C12). Shapes bounded per tier.",
		Technique:   techniqueText,
		Explanation: "Bounded symbolic execution of the rule optimizers against AST-level meaning under all atom valuations.",
		Bounds:      map[string]string{"quick": "shapes: two neighbouring single-condition rules with <=2 values each | a two-condition rule followed by a single-condition rule; functions dip/ip/sip, domain (+dip), qname (+dip); negation symbolic; keys '', domain, suffix, contains, keyword, full, geosite/geoip; outbound spellings proxy / proxy(mark:1) / direct; geosite_expand: 3 look-ups in any order among 4 spellings of one code with and without @attr over a 4-entry model file", "thorough": "adds three single-condition rules in a row"},
		Outside:     []string{"geodata file decoding (geosite_expand runs the real expansion and its cache over a stubbed file layer; geoip expansion is stubbed)", "SplitRequestRules", "rules with more than two conditions / values"},
		Assumptions: []string{"geosite/geoip codes expand to fixed lists", "deep copy is structural"},
		QuickBudget: 8 * time.Minute, ThoroughBudget: 20 * time.Minute,
	}
	checks["C01"] = &CheckDef{
		Pkgs:    []string{"./control", "./component/routing"},
		Harness: []string{"control:Verif_C01_one_rule", "control:Verif_C01_two_rules", "control:Verif_C01_shared_set", "control:Verif_C01_shared_mac", "control:Verif_C01_key_groups", "component/routing:Verif_C01_value_parsers"},
		MaxIter: 600,
		Level:   "other",
		LevelText: "A routing program of symbolic shape (condition kinds, '!' flags, one or two values or key groups, outbound with mark/must parameters, must_rules, fallback) is lowered by the real NormalizedProgram.Lower / RulesBuilder.Apply / ParseOutbound into the real RoutingMatcherBuilder.add* methods with symbolic typed values (ports, prefixes, MACs, process names, DSCP, protocol/version masks), compiled by the real BuildUserspace, and a fully symbolic packet is routed through the real ControlPlane.Route / RoutingMatcher.Match. The solver shows (outbound, mark, must) equal to a first-match evaluator written from the statement, for every packet and every value.",
		LevelNote: "Trusted: go/ssa, executor, z3/cvc5, the evaluator in the harness. Contracts used instead of re-executing the set matchers: K-LPM (trie.Prefix2bin128 + NewTrieFromPrefixes + HasPrefix decide CIDR containment on the IPv4-mapped form; proved in C12) and K-DOM (the domain matcher's bitmap has bit i set iff the set added under RuleIndex i matches; C11) - each domain set's match is a free boolean. The text-to-value parsers (ParsePortRange, ParseMac, parsePrefixes ...) are bypassed: parser closures hand symbolic typed values to the real add* methods.",
		Technique: techniqueText,
		Explanation: "Bounded symbolic execution of rule lowering, compilation and the userspace matcher against a first-match specification.",
		Bounds:  map[string]string{"quick": "value_parsers: written values -> typed values (process names of 1/15/16/17/20 symbolic bytes, port ranges, l4proto / ipversion words, MAC, prefixes); key_groups: domain(full, suffix) && {dport | l4proto} in either written order; shared_set: sip(P) -> x ; ip(P) -> y over one de-duplicated prefix set P (3 prefix forms), either negated; shared_mac: mac(M) && port -> x ; mac(M) -> y over the same symbolic address, either negated; one rule + fallback: each of the 10 condition kinds, 1-2 values (domain: 1-2 key groups), negation symbolic, 4 outbound forms incl. must_rules; two rules + fallback: port && {ip | domain | mac} (1-2 values) then sport, first rule must_rules or a marked group; prefix forms v4/24, v6/64, v4/0; packet fully symbolic (both address forms for the destination, with and without a domain)", "thorough": "all 10 kinds in every position of the two-rule shape, 7 outbound forms, prefix forms /0 /24 /32 /64 /128"},
		Outside: []string{"more than two rules / two conditions per rule (the per-match-set loop state is the same for any length)", "text-to-value parsing inside the matcher harnesses (the parsers are checked on their own in value_parsers and bypassed elsewhere)", "config.patchMustOutbound"},
		Assumptions: []string{"K-LPM (C12)", "K-DOM (C11): domain-set hits are free booleans", "logger is a no-op"},
		QuickBudget: 8 * time.Minute, ThoroughBudget: 25 * time.Minute,
	}
	checks["C07"] = &CheckDef{
		Pkgs:    []string{"./component/dns", "./control", "./component/routing/domain_matcher"},
		Harness: []string{"component/dns:Verif_C07_request", "component/dns:Verif_C07_response", "component/dns:Verif_C07_response_select", "control:Verif_C07_reject_ignores_cache", "control:Verif_C07_reask_bound", "component/routing/domain_matcher:Verif_C07_qname_marker_bytes"},
		MaxIter: 600,
		Level:   "other",
		LevelText: "DNS request and response rule programs of symbolic shape are lowered by the real RulesBuilder.Apply into the real Request/ResponseMatcherBuilder.add* methods with symbolic typed values (query types, answer prefixes, upstream ids), built by the real Build and matched by the real RequestMatcher.Match / ResponseMatcher.Match on a symbolic question (type, answering upstream, 0-2 answer addresses); the solver shows the selected upstream / verdict equal to a first-match evaluator for every question. The real DnsController.HandleWithResponseWriter_ is run with a live cache entry and a request routed to reject (empty answer, cache family dropped, no upstream contacted), and the real dialSend recursion is run against an adversarial ResponseSelect (any verdict at every step): at most MaxDnsLookupDepth upstream queries, failure only by the depth limit.",
		LevelNote: "Trusted: go/ssa, executor, z3, the evaluator in the harness. Contracts K-LPM / K-DOM as in C01 (qname sets are free booleans; the answer-address trie is CIDR containment). Forwarders, the dialer chooser and wire packing are stubs; Dns.RequestSelect/ResponseSelect are replaced in the controller harnesses (their own index checks are not covered).",
		Technique: techniqueText,
		Explanation: "Bounded symbolic execution of DNS rule compilation/matching and of the controller's reject and re-ask flows.",
		Bounds:  map[string]string{"quick": "qname_marker_bytes: one full or suffix set {a | a.b}, names of 2-5 symbolic bytes over {a,b,.,^,$}; request: {qname|qtype}(<=2 values) && {qname|qtype} then {qname|qtype}(<=2), 2 of 4 upstream targets per rule; response: {ip|upstream|qtype}(<=2) && qname then {ip|upstream}, verdicts accept/reject/upstream; question: symbolic qtype and answering upstream, answers none | one v4 | v6+v4 with symbolic bytes; re-ask chains: every verdict sequence up to the depth limit", "thorough": "all kinds in all three positions, all verdict combinations, any family per answer"},
		Outside: []string{"network forwarders, TCP fallback", "Dns.RequestSelect/ResponseSelect index range checks", "SplitRequestRules"},
		Assumptions: []string{"K-LPM (C12)", "K-DOM (C11)", "forwardWithFallback returns an arbitrary well-formed answer"},
		QuickBudget: 8 * time.Minute, ThoroughBudget: 20 * time.Minute,
	}
	checks["C10"] = &CheckDef{
		Pkgs:    []string{"./control"},
		Harness: []string{"control:Verif_C10_mirror", "control:Verif_C10_mirror_long", "control:Verif_C10_cache_history"},
		MaxIter: 600,
		Level:   "other",
		LevelText: "Histories of cache insertions, replacements and removals are run from an empty tracker through the real controlPlaneCore.BatchUpdateDomainRouting / BatchRemoveDomainRouting (buildDomainRoutingOwnerSnapshot, syncOwner, desiredBitmapForKeyLocked, applyOwnerSnapshotLocked) and, in a second harness, through the DNS cache itself (production insert path with the control plane's callbacks, RemoveDnsRespCache, RemoveDnsRespCacheFamily, staleDnsSideEffects / orphanedDnsSideEffects); the batches the tracker emits are folded into a shadow kernel map. After every step the solver shows, for symbolic bitmaps, that the table holds for each address exactly the union of the bitmaps of the live entries listing it, that unspecified addresses never enter and that no other key exists.",
		LevelNote: "Trusted: go/ssa, executor, z3, the union specification in the harness. BpfMapBatchUpdate/BpfMapBatchDelete are replaced by shadow-map updates (the kernel hash map itself is outside); bitmaps are symbolic in word 0 (and word 31 in the thorough tier), other words zero; two owners (or three cache keys, two of them scopes of one name) over two addresses (one IPv4, one IPv6) plus 0.0.0.0 / ::. Map iteration follows insertion order.",
		Technique: techniqueText,
		Explanation: "Bounded symbolic execution of the domain routing tracker and the cache paths feeding it, against a shadow kernel map.",
		Bounds:  map[string]string{"quick": "mirror_long: 4 steps over 2 owners, step alphabet {remove, list address 0, list address 1} with arbitrary bitmap word 0 (first step fixed by symmetry); tracker: 2 arbitrary steps (update with any address subset and any bitmap, or removal, on either owner) + 1 removal-or-simple-update; cache: 2 arbitrary steps over 3 keys (insert with any address subset / exact removal / family removal) + 1 removal", "thorough": "one more arbitrary step in the tracker harness, arbitrary last step in the cache harness, bitmap word 31 symbolic"},
		Outside: []string{"kernel hash map implementation", "async BPF update worker and its rate limiting (NeedsBpfUpdate)", "janitor / LRU eviction paths (same delete callback)"},
		Assumptions: []string{"batch operations succeed", "domain matcher returns an arbitrary bitmap per name"},
		QuickBudget: 8 * time.Minute, ThoroughBudget: 20 * time.Minute,
	}
	checks["C11"] = &CheckDef{
		Pkgs:    []string{"./component/routing/domain_matcher", "./pkg/trie", "./common/bitlist"},
		Harness: []string{"common/bitlist:Verif_C11_bitlist", "pkg/trie:Verif_C11_trie_contract", "pkg/trie:Verif_C11_trie_words", "component/routing/domain_matcher:Verif_C11_kinds", "component/routing/domain_matcher:Verif_C11_invalid_skipped", "component/routing/domain_matcher:Verif_C11_letter_case"},
		MaxIter: 2000,
		Level:   "other",
		LevelText: "The real AhocorasickSlimtrie (AddSet, Build, MatchDomainBitmap, ToSuffixTrieString) over the real succinct trie (trie.NewTrie, HasPrefix, countZeros, selectIthOne, init) and packed bit list (CompactBitList Set/Get/Append/Tighten) is executed with pattern sets of two kinds at bit indices 1 and 33 or 1 and 9 (different / same bitmap word) and a symbolic host name (mixed case, optional trailing dot): the solver shows each set's bit equal to the statement's meaning of its kind (full / suffix with and without leading dot / keyword) and all other bits clear, that patterns with characters outside the alphabet are skipped without effect, that the trie decides 'some key is a prefix of the word' for key sets with nested and duplicate keys and the alphabet's zero character, also for a key set whose rank/select tables span several 64-bit words, and that the bit list reads back what was written for every unit width 1..17 and arbitrary values.",
		LevelNote: "Trusted: go/ssa, executor, z3, the kind semantics written in the harness. The Aho-Corasick automaton (third party) is used through its contract (Contains <=> a pattern is a substring); Go regexp (regex kind) is not exercised. Patterns and trie keys are chosen from pools so that the succinct structure is built concretely; names / words / bit-list values are symbolic.",
		Technique: techniqueText,
		Explanation: "Bounded symbolic execution of the domain matcher, the succinct trie and the packed bit list.",
		Bounds:  map[string]string{"quick": "kinds: set at bit 1 = 1-2 patterns from {a, a.b, .b, ab, b.a, a-b} of any of 3 kinds, set at bit 33 = {a.b} of any kind; names of 1-3 symbolic bytes over {a,b,A,.} with optional trailing dot; trie contract: 2 keys from an 8-key pool, words <=3 bytes over {0,a,b,.}; trie words: 67 keys (3-word tables), every 3-letter query over a..l; bit list: widths 1..17, 6 arbitrary values, one overwrite; letter_case: each of a-z, 0, 9, '-', '_' in upper case against its lower-case pattern, 3 kinds, optional trailing dot", "thorough": "names <=4 bytes over {a,b,A,.,-}, 3 keys from a 10-key pool, words <=4 bytes incl. '^' and an invalid byte"},
		Outside: []string{"regex kind (Go regexp)", "the Aho-Corasick automaton's own correctness", "geosite-scale sets"},
		Assumptions: []string{"ahocorasick.Matcher.Contains by contract", "runtime.GOMAXPROCS = 8; goroutines of Build run to completion in spawn order"},
		QuickBudget: 8 * time.Minute, ThoroughBudget: 20 * time.Minute,
	}
	checks["C06"] = &CheckDef{
		Pkgs: []string{"./component/sniffing"},
		Harness: []string{"component/sniffing:Verif_C06_tls_arbitrary", "component/sniffing:Verif_C06_tls_hello", "component/sniffing:Verif_C06_http",
			"component/sniffing:Verif_C06_tls_chunked", "component/sniffing:Verif_C06_passthrough", "component/sniffing:Verif_C06_quic_frames", "component/sniffing:Verif_C06_quic_arbitrary", "component/sniffing:Verif_C06_quic_datagram_intact", "component/sniffing:Verif_C06_quic_outcome"},
		MaxIter: 2000,
		Level:   "other",
		LevelText: "The real sniffers are executed symbolically: extractSniFromTls / findSniExtension over a ClientHello of arbitrary bytes in a buffer without spare capacity (no panic, no out-of-bounds read); NewPacketSniffer/NewConnSniffer + SniffTcp over a well-formed hello assembled from symbolic fields (extension order, session id size, an entry of another name type first, trailing dot, mixed case, arbitrary random / suites / other extension) - the name reported is exactly the one carried and the bytes handed on are the client's; the same hello cut into up to three reads after its record header through the real stream path (readStreamOnceWithReadDeadline, pool Buffer.ReadFromOnce) against a model socket that records every deadline - name found, each read armed with the one construction-time deadline and disarmed afterwards, relay (TakeRelayPrefix then Read, as control/tcp_copy_gather_linux.go does) gets the stream byte for byte; an arbitrary first segment with the rest arriving in time or only after the sniffing timeout - no name invented, no deadline left armed, no stale sniffing error replayed to the relay, stream intact; SniffHttp over request heads with Host at any header position / key case / spacing; and the QUIC Initial CRYPTO path below decryption (ExtractCryptoFrameOffset, ReassembleCryptos, LinearLocator, then the same ClientHello walk) for a hello cut into three frames in any order with PING/PADDING, an overlapping resend and one or two datagrams, and for two frames with arbitrary contents at overlapping/abutting/gapped offsets (no panic); and SniffUdp on an arbitrary QUIC Initial datagram with the in-place header unprotection modelled (arbitrary mask, decryption succeeding or failing): the datagram later replayed to the relay (Sniffer.Data) is byte for byte the client's.",
		LevelNote: "Trusted: go/ssa, executor, z3, the hello / request assembled in the harness as the reference for 'the name that is carried', and the model socket (a read beyond what has arrived reports a timeout, as a socket whose deadline passes does). QUIC header unprotection and AEAD (AES, HKDF) are not encoded: the QUIC harnesses start from the decrypted payload. Two genuine defects were found with this check and repaired (see known_findings.json): a slice-bounds panic in findSniExtension, and the sniffing timeout being replayed to the relay as a read error.",
		Technique: techniqueText,
		Explanation: "Bounded symbolic execution of the TLS / HTTP / QUIC-CRYPTO sniffers and the stream sniffer's read, deadline and replay path.",
		Bounds: map[string]string{"quick": "quic_outcome: SniffQuic over the CRYPTO frames of a hello with / without server_name, stream complete / lacking its last 7 bytes (packet stage replaced); arbitrary ClientHello: 49-51 symbolic bytes (type/version steered); well-formed hello: names 1-3 bytes over {a,B,-,1}, session id 0/32, 3 extension orders, 1 suite; chunked: one hello shape, cut points {5,6,44,len-1,len} x2; passthrough: 6 symbolic bytes (first byte TLS / G / P / 0), tail in time or late; HTTP: 4 methods x 3 Host positions x 4 key cases x 3 values; QUIC frames: 3 cut points, 6 orders, resend, 1-2 datagrams; QUIC arbitrary: frame A 41 symbolic bytes at offset 0, frame B 4/8 bytes at offset 0/39/41; QUIC datagram: 35 bytes, 2-byte DCID, symbolic header-protection mask", "thorough": "names <=4, session id 0/1/32, 1-2 suites, passthrough 6/9 free bytes, 6 QUIC cut points, QUIC arbitrary offsets A{0,1,38} x B{0,39,41,42,45,63}"},
		Outside: []string{"QUIC header protection / AEAD decryption (crypto not encoded)", "hellos longer than the bounds (the longest modelled one is 4.3 KiB, in tls_chunked), more than 3 extensions", "the async read path used only for readers without deadlines", "UDP datagram replay order in control/udp.go", "HTTP heads split over reads (the statement only claims one read)"},
		Assumptions: []string{"model socket c06Conn: chunks arrive as given; a read beyond them returns a net.Error with Timeout()=true; SetReadDeadline always succeeds", "time.Now abstracted to an arbitrary instant"},
		QuickBudget: 10 * time.Minute, ThoroughBudget: 20 * time.Minute,
	}
	checks["C20"] = &CheckDef{
		Pkgs: []string{"./cmd", "./component/outbound/dialer"},
		Harness: []string{"cmd:Verif_C20_protocol", "cmd:Verif_C20_retirement", "component/outbound/dialer:Verif_C20_suppression", "component/outbound/dialer:Verif_C20_suppression_threads"},
		CFG: []CFGCheck{
			{Name: "every way round the reload worker's loop either releases the pending request or hands it off, exactly once", Pkg: "cmd", Contains: ".coalesceReloadRequest", RangeOver: "reloadRequest",
				Release: []string{"cmd.clearReloadPending", ".finishReloadFailure", ".finishReloadSuccess", ".beginHandoff"}},
			{Name: "every way the main loop completes a handed-off reload releases the pending request exactly once", Pkg: "cmd", Contains: ".pendingDNSHandoffActive", StartIfLoadField: "reloading",
				Release: []string{"cmd.clearReloadPending", ".finishReloadFailure", ".finishReloadSuccess"}},
		},
		MaxIter: 200,
		Level:   "other",
		LevelText: "Three parts. (1) The reload manager's real entry points (tryQueueReloadRequest, coalesceReloadRequest, clearReloadPending, releaseReloadPendingAfterRetirement, finishReloadFailure, finishReloadSuccess, takePendingRetirementDone, restore/clearRejectedReloadProgress) run as goroutines under the engine's schedule exploration: a signal goroutine sending three reload/suspend requests, the worker leaving through any of its four kinds of exit (early failure, late failure, success, success with a pending retirement), the retirement goroutine and the release goroutine; every interleaving at blocking operations plus up to one preemption at any atomic / channel / mutex operation; the schedule and the exits are symbolic inputs enumerated by the solver. Obligations: a request is accepted only while nothing is in progress or retiring; a refused request is reported busy and leaves queue and muting untouched; once settled the muting is lifted, the flags are clear and a new request is accepted and processed. (2) The muting counter itself (Begin/EndReloadProxyFailureSuppression, proxyFailureSuppressedForReload): arbitrary begin/end sequences and two concurrent ends under <=2 preemptions. (2b) Retirement of the previous generation (retireControlPlaneConnections / waitForControlPlaneDrain) with a session that never goes idle, any remaining budget including zero, abort requested or not, dialer overlap or not, timers free to fire: it always ends and aborts what is left. (3) Two solver queries over the control-flow graph of the real (*Runner).Run: every walk through one iteration of the reload worker's loop, and every walk by which the main loop completes a handed-off reload, calls exactly one of the release / hand-off functions (conditions abstracted to free choices; unsat = no walk of up to 2x|blocks| steps with a different count).",
		LevelNote: "Trusted: go/ssa, executor and its cooperative thread model (preemption only at synchronisation operations: data-race-free code assumed), z3. The worker in part (1) is a skeleton written in the harness that calls the real manager functions at each exit; part (3) ties that skeleton to the real loop. Control-plane construction, listeners, retirement draining and signal delivery are not executed.",
		Technique: techniqueText,
		Explanation: "Bounded schedule exploration of the reload manager with symbolic schedules, plus control-flow-graph path queries over (*Runner).Run.",
		Bounds: map[string]string{"quick": "2 signals with a free switch point between them + 1 follow-up request, 4 worker exits per request, <=1 preemption (plus all orders at blocking points); counter: 4 begin/end operations, 2 concurrent ends with <=2 preemptions; CFG walks of <= 2x|blocks| steps (132 and 80)", "thorough": "2 signals with a free switch point, 4 exits, <=2 preemptions (about 950k schedules, 15 min); 6 begin/end operations"},
		Outside: []string{"the body of each reload stage (config load, control-plane construction, listener hand-over, retirement drain)", "OS signal delivery and coalescing in the runtime", "more than three signals in flight", "data races on non-atomic variables"},
		Assumptions: []string{"goroutines switch only at synchronisation operations (channel, mutex, atomic, sync.Map, timers)", "progress file replaced by a variable; suppression hooks in package cmd replaced by counters (the real counter is checked in part 2)", "CFG queries: branch conditions are free, so an infeasible walk could be reported (none is on the current tree)"},
		QuickBudget: 10 * time.Minute, ThoroughBudget: 20 * time.Minute,
	}
	checks["C13"] = &CheckDef{
		Pkgs: []string{"./control"}, Splice: true,
		Harness: []string{"control:Verif_C13_taskpool", "control:Verif_C13_taskpool_recycle", "control:Verif_C13_tuples", "control:Verif_C13_tuples_handover", "control:Verif_C13_overflow", "control:Verif_C13_endpoint_pool", "control:Verif_C13_endpoint_cooldown", "control:Verif_C13_endpoint_cooldown_concurrent", "control:Verif_C13_endpoint_invalidation", "control:Verif_C13_endpoint_adoption"},
		Stubs: map[string]string{"(*github.com/daeuniverse/dae/control.UdpEndpoint).prewarmResponseConn": "noop", "github.com/daeuniverse/dae/control.reportUdpEndpointDialCreateFailure": "noop"},
		MaxIter: 1000,
		Level:   "other",
		LevelText: "The real UdpTaskPool (EmitTask, acquireQueue, enqueue, convoy with its idle timer, tryDeleteQueue, channel recycling through sync.Pool) and the real conn-state tuple tracker (Retain / BeginRelease / FinalizeRelease / Forget with waiters on an in-flight deletion, through controlPlaneCore.Retain/Release/TransferRetainedUdpConnStateTuples) run as goroutines under the engine's schedule exploration: every interleaving at blocking operations plus one preemption at any atomic / mutex / channel / sync.Map / timer operation, the idle timer free to fire whenever its waiter is scheduled; schedules are symbolic inputs enumerated by the solver and pinned in the replay file. Obligations: every accepted task runs exactly once, tasks of a flow never overlap and keep each producer's order, nothing is lost in or run from a recycled channel; a kernel flow entry is deleted only when no owner holds its tuple, is gone once the last owner has gone (also when a reload moved ownership to the next generation's tracker), nothing stays tracked and no goroutine stays blocked on a deletion. The real UdpEndpointPool.GetOrCreate / createEndpointLocked / retire / Close / cacheFailureLocked run against a model dialer and model packet sockets: two concurrent first packets of one source cause a single dial and share the endpoint, a later packet reuses it, a write error retires it and closes its transport exactly once, the retired endpoint is never handed out again (a new dial follows), closing twice closes once; after a failed dial the source is refused without dialling until the cool-down has passed on an arbitrary clock; when the node behind an endpoint is reported not alive, an endpoint that has not yet carried traffic is retired (closed once, never handed out again) and one that has is kept; a live endpoint adopted by the next generation (before or after registering its first tuples) has all its tuples in the new generation's tracker and none in the old one, and closing it empties both and removes the kernel entries. Two genuine defects were found with this check and repaired (see known_findings.json): the idle collection could remove a queue that still held a task, and an overflowing burst could overtake older tasks in the channel.",
		LevelNote: "Trusted: go/ssa, executor and its cooperative thread model (goroutines switch only at synchronisation operations: data-race-free code assumed; an unbuffered channel is a one-slot buffer), z3. Endpoint pool: the reply path to the client (Anyfrom sockets; prewarmResponseConn is stubbed), dialer health reporting (stubbed), the janitor, health invalidation epochs and generation adoption are not covered.",
		Technique: techniqueText,
		Explanation: "Bounded schedule exploration (symbolic schedules, bounded preemptions) of the UDP task pool and the conn-state tuple tracker.",
		Bounds: map[string]string{"quick": "task pool: 2 producers, 3 tasks, one or two flow keys, 1 preemption, each timer fires <=2 times; overflow: bursts of 1/128/129/257/430 tasks for one flow before the worker runs, 0-2 later tasks (deterministic schedule); endpoint pool: 2 concurrent GetOrCreate on one key (all interleavings at blocking points, the dial yields), then reuse, write error, re-dial, double close; cool-down on an arbitrary clock, sequentially and with 2 concurrent first packets whose dial fails (clock kept inside the cool-down); tuples: 3 owners over 2 tuples (1 preemption), hand-over of 1 tuple between two generations with a concurrent close", "thorough": "2 preemptions for the task pool"},
		Outside: []string{"UdpEndpointPool janitor, drain-tracker hand-over in adoptGeneration, Reset/Close of the pool, reply loop to the client", "overflow FIFO interleaved with concurrent producers (the burst harness fills it before the worker runs)", "task panics", "pool Close/Reset racing with producers", "data races on non-atomic fields"},
		Assumptions: []string{"goroutines switch only at synchronisation operations", "BpfMapBatchDelete replaced by a shadow table", "model dialer / packet socket; prewarmResponseConn and reportUdpEndpointDialCreateFailure stubbed", "the kernel re-creates a flow entry once an owner has retained its tuple"},
		QuickBudget: 10 * time.Minute, ThoroughBudget: 20 * time.Minute,
	}
	checks["C17"] = &CheckDef{
		Pkgs: []string{"./component/dns", "./common", "./config"},
		Harness: []string{"component/dns:Verif_C17_dns_capacity", "common:Verif_C17_include_scope", "config:Verif_C17_include_merge"},
		NoMergeFns: []string{"filepathlite.", "path/filepath."},
		MaxIter: 2000,
		Level:   "other",
		LevelText: "Three of the property's clauses are within reach of the executor and are checked on the real code. (1) Rule programs beyond the supported size are rejected with an error, never a crash: the real DNS request-routing compiler (NewRequestMatcherBuilder, NormalizedRequestRoutingProgram.Lower, addQName / addQType, Build with the real AhocorasickSlimtrie) is run on programs of 29..34 rules around the match-set limit (the limit variable lowered to 32), the kinds of the rules next to the limit symbolic: no panic; a qname rule at an index the matcher cannot hold makes Build return an error; an accepted program routes a name only its last qname rule lists by that rule and an arbitrary (symbolic) query type by the first rule that matches it. (2) An included file is never read from outside the entry configuration directory: common.EnsureFileInSubDir (with the real filepath.Dir / Rel / Clean) on every path of 5 symbolic bytes over {a . /} below /etc/dae: acceptance implies that the file's directory, resolved lexically by an independent reference, is /etc/dae or below. (3) Included files are merged deterministically, cycles and escapes are rejected: the real config.Merger (Merge, dfsMerge, readEntry with its cycle / suffix / scope checks, unsqueezeEntries, convertSectionsToMap, mergeItems) over a modelled directory tree and a modelled parser (a file's text is its name; parsing yields the sections the model holds): an entry with two routing blocks, a relative include, a glob over a sub-directory and a nested include, optionally closing a cycle, reaching out of the directory (relative or absolute) or naming a non-.dae file: the merged routing items are the including file's in written order followed by each included file's depth first in listed order; a cycle is ErrCircularInclude; only .dae files inside the directory are ever opened. This part runs on concrete data (five include graphs): it exercises the real code in the executor but the solver has nothing to decide. A genuine defect was found while building this check and repaired (see known_findings.json): a domain/qname rule beyond the limit crashed start-up and reload.",
		LevelNote: "NOT covered, and stated as outside the claim: the text -> parse tree -> sections step (ANTLR's ATN interpreter over generated tables is beyond the executor: thousands of table-driven states per token), the reflection-driven typed configuration (package reflect is not encoded). The claim is therefore partial: the capacity, include-scope and include-merge clauses only.",
		Technique: techniqueText,
		Explanation: "Bounded symbolic execution of rule-program compilation at the match-set limit and of the include-scope test.",
		Bounds: map[string]string{"quick": "29..34 rules + fallback, limit 32, kinds of rules 28.. symbolic (qname/qtype), symbolic 16-bit query type; include paths: 5 symbolic bytes over {a . /} under /etc/dae; include merge: 6 concrete include graphs over 8 model files (one with a listed order that is not alphabetical)", "thorough": "include paths of 7 symbolic bytes"},
		Outside: []string{"config text -> AST (ANTLR)", "config.SectionParser / ParamParser (reflection)", "file permissions check and real globbing in the merger (modelled)", "symlinks (EnsureFileInSubDir is lexical)", "the main routing section's kernel-side capacity (rejected by the kernel map in production)"},
		Assumptions: []string{"consts.MaxMatchSetLen lowered to 32 (it is a variable; all tables are sized from it)"},
		QuickBudget: 10 * time.Minute, ThoroughBudget: 20 * time.Minute,
	}
	checks["C09"] = &CheckDef{
		Pkgs: []string{"./control"}, Splice: true,
		Harness: []string{"control:Verif_C09_forwarder_lifetime", "control:Verif_C09_forwarder_idle_evict", "control:Verif_C09_cached_reply_id", "control:Verif_C09_udp_upstream_id", "control:Verif_C09_singleflight", "control:Verif_C09_pipelined", "control:Verif_C09_pipelined_cancel"},
		MaxIter: 5000,
		Level:   "other",
		LevelText: "Three clauses of the property on the real code. (1) 'A retired upstream connection is closed exactly once, after its last in-flight query': cachedDnsForwarder.beginUse / endUse / retire / closeNow with two borrowing queries and a retirement as goroutines under schedule exploration (every interleaving at blocking points plus up to two preemptions at any atomic operation, schedules as symbolic inputs): an admitted query never sees its forwarder closed, the forwarder is closed exactly once when retired and idle, a retired forwarder admits nobody. (2) 'Each reply carries that client's transaction ID': DnsController.writeCachedResponse on an arbitrary packed answer (12-20 symbolic bytes, and a 1030-byte answer beyond the pooled buffer) and an arbitrary client ID: the datagram sent is the cached answer with exactly the first two bytes replaced, from the queried server's address to the client, and the cached bytes are untouched. (3) 'Whatever an upstream does (answer late, twice, for a different question)': DoUDP.ForwardDNS with the real connection pool against a model socket delivering up to three datagrams with arbitrary IDs: exactly the first datagram carrying the request's ID is returned, none is made up otherwise. (4) Concurrent identical questions: two clients call the real HandleWithResponseWriter_ at the same time (real x/sync singleflight, resolution replaced by a yielding stub returning an uncacheable NXDOMAIN), all interleavings at blocking operations: both are served exactly once under their own symbolic IDs and the replies are separate message objects. (5) The pipelined TCP upstream (newPipelinedConn, readLoop, RoundTrip, idBitmap, responseSlot) over a model stream: two queries in flight, a stray reply under an ID the connection never issued (including the two that alias a genuine ID above the table's 12 index bits) followed by the genuine replies in either order: each query gets exactly its own reply. A genuine defect was found with this check and repaired (see known_findings.json): endUse could close a retired forwarder under a query admitted just before the retirement.",
		LevelNote: "Partial claim. Not covered: pipelining timeouts / ID reuse after cancellation with ID reuse, UDP->TCP fallback, caching under the right key - the last is covered from the cache side by C07/C08). Trusted: go/ssa, executor and its thread model (switches only at synchronisation operations), z3, miekg/dns Pack/Unpack as executed.",
		Technique: techniqueText,
		Explanation: "Bounded symbolic execution and schedule exploration of DNS reply ID handling, upstream ID filtering and forwarder lifetime.",
		Bounds: map[string]string{"quick": "2 borrowers + 1 retire, <=2 preemptions; 1 query + the idle evictor on one cached forwarder, <=2 preemptions; cached answers of 12/16/20 symbolic bytes, symbolic 16-bit IDs; 1-3 upstream datagrams with symbolic IDs, each echoing the question asked (either letter case) or another one; 2 concurrent clients on one uncached question; pipelined: 2 queries + 1 stray reply (5 stray IDs, both genuine orders); pipelined_cancel: 1 cancelled query, 1 later query, the late answer first", "thorough": "same (3 preemptions are out of reach within the budget)"},
		Outside: []string{"the UDP packet-send branch after singleflight (needs sendPkt)", "DoH / DoQ forwarders, pipelined connection pool scaling", "comparison of the echoed question on the stream / pipelined / DoH transports (their IDs are allocated by dae per connection; only the UDP path, where the ID is the client's, is checked for it)", "UDP to TCP fallback", "ID collisions between concurrent clients on one pooled socket (each borrower owns its socket while it waits)"},
		Assumptions: []string{"goroutines switch only at synchronisation operations", "sendPkt replaced by a recorder; the upstream socket is a model that returns the given datagrams then times out"},
		QuickBudget: 10 * time.Minute, ThoroughBudget: 20 * time.Minute,
	}
	checks["C05"] = &CheckDef{
		Pkgs: []string{"./control"}, Splice: true,
		Harness: []string{"control:Verif_C05_relay", "control:Verif_C05_relay_error", "control:Verif_C05_prefetch", "control:Verif_C05_port53"},
		MaxIter: 2000,
		Level:   "other",
		LevelText: "The real relay (RelayTCPContextWithRecords -> relayCore.run with its two direction goroutines, context watcher and forceClose, defaultRelayCopyEngine.Copy, tryRelayGatherWrite with TakeRelaySegments / TakeRelayPrefix / CopyRelayRemainder, relayCopyLoop / relayCopyDirect) runs between two model sockets under the engine's schedule exploration (every interleaving of client, upstream, the two copy directions and the watcher at blocking operations; schedules are symbolic inputs). The client side is plain, or wrapped the way handleConn wraps it: prefixedConn with read-ahead bytes, bufioConn after a DNS-detection Peek (with the gather path's read of pending client bytes enabled by letting the model socket count as a TCP socket), or ConnSniffer over a prefixedConn after a failed sniff. Client and upstream each send two segments of symbolic bytes and shut down their sending side; the model sockets either report end of stream on its own or together with their last bytes (as TLS / AEAD streams do). Obligations: each side receives exactly the other's byte stream (read-ahead included, no loss, duplication or reordering); each end of stream is passed on as exactly one write-shutdown and nothing is written after it; the relay finishes without error. A second harness resets the upstream at either write: the relay does not hang, reports the error and closes both connections. A genuine defect was found with this check and repaired (see known_findings.json): the wrappers hid CloseWrite, so the upstream's end of stream reached a client behind a sniffing wrapper only after the 10 s half-close timeout. A fourth harness takes a port-53 client stream that does not open with a DNS query (five first-byte shapes: short announced length with arbitrary bytes, plausible length with a non-DNS body, a well-formed DNS response, one byte inside the window, nothing inside the window) through the real detection step handleTCPDnsFastPath / peekDnsMsgFromBufio and then through the relay over a bufioConn as handleConn does: detection declines the stream, leaves no read deadline armed, and the upstream receives every byte. Two further genuine defects were found there and repaired (detection deadline left armed; leading response frame consumed).",
		LevelNote: "Partial claim. The splice(2) and writev fast paths need real *net.TCPConn file descriptors and are not executed (model sockets take the buffered-loop and gather paths); of handleConn only the port-53 detection step and its fallback are executed (not the served DNS fast path, routing, dial or the order of the steps); the detection-window timing clause is covered for the sniffer only (C06). Trusted: go/ssa, executor and thread model (switches at blocking operations only in this check), z3.",
		Technique: techniqueText,
		Explanation: "Bounded schedule exploration of the TCP relay core over model sockets with symbolic payloads.",
		Bounds: map[string]string{"quick": "2 segments of 2-3 symbolic bytes per direction, 0/4 read-ahead bytes, 4 client-side wrapper stacks, all interleavings at blocking operations (no preemption inside a copy step); error harness: failure at the 1st or 2nd upstream write; port53: 5 first-byte shapes (5 arbitrary bytes in the short-length shape), 1-2 later client segments of 2-3 symbolic bytes, upstream bytes already waiting", "thorough": "same"},
		Outside: []string{"splice / writev fast paths on real TCP sockets", "handleConn wiring beyond the port-53 detection fallback, the served DNS-over-TCP fast path (needs a DNS controller), prefetch timing", "half-close grace period expiry (the 10 s timer is armed but time does not advance in the model)", "MPTCP, proxy-protocol outbound connections"},
		Assumptions: []string{"model socket: segments arrive on a channel, a read deadline of time.Unix(1,0) or Close unblocks a pending read with a timeout error", "the clock is arbitrary but later than the epoch sentinel the relay uses as 'deadline in the past'"},
		QuickBudget: 10 * time.Minute, ThoroughBudget: 20 * time.Minute,
	}
	checks["ZZ"] = &CheckDef{
		Pkgs: []string{"./zz_selftest"}, Hidden: true,
		Harness: []string{"zz_selftest:Verif_Self_lost_update", "zz_selftest:Verif_Self_cas_ok"},
		MaxIter: 200, Level: "other", Technique: techniqueText,
	}

}
