// vcheck: driver for the solver-based checks of daeuniverse/dae.
//
//	vcheck run <ID> [--tier quick|thorough] [--only Harness] [--workers N] [--verbose]
//	vcheck replay <ID> <replay.json>
//	vcheck selftest
package main

import (
	"encoding/json"
	"flag"
	"fmt"
	"os"
	"path/filepath"
	"runtime"
	"runtime/debug"
	"runtime/pprof"
	"sort"
	"strconv"
	"strings"
	"time"

	"golang.org/x/tools/go/ssa"
	"verif/engine/gosym"
)

var (
	verifDir = envOr("VERIF_DIR", "/verif")
	repoDir  = envOr("VERIF_REPO", "/repo")
)

func envOr(k, d string) string {
	if v := os.Getenv(k); v != "" {
		return v
	}
	return d
}

func main() {
	os.Setenv("PATH", "/opt/veriftools/go1.26.8/bin:"+os.Getenv("PATH"))
	os.Setenv("GOTOOLCHAIN", "local")
	os.Setenv("GOFLAGS", "-mod=mod")
	os.Setenv("GOPROXY", "off")
	debug.SetGCPercent(400)
	if pf := os.Getenv("VERIF_PROF"); pf != "" {
		f, _ := os.Create(pf)
		pprof.StartCPUProfile(f)
		defer pprof.StopCPUProfile()
		go func() {
			time.Sleep(60 * time.Second)
			pprof.StopCPUProfile()
			f.Close()
			os.Exit(0)
		}()
	}
	if len(os.Args) < 2 {
		fmt.Fprintln(os.Stderr, "usage: vcheck run|replay|selftest ...")
		os.Exit(2)
	}
	switch os.Args[1] {
	case "run":
		os.Exit(cmdRun(os.Args[2:]))
	case "replay":
		os.Exit(cmdReplay(os.Args[2:]))
	case "selftest":
		os.Exit(cmdSelftest(os.Args[2:]))
	case "manifest":
		os.Exit(cmdManifest())
	case "list":
		for _, id := range checkIDs() {
			fmt.Println(id)
		}
	default:
		fmt.Fprintln(os.Stderr, "unknown command", os.Args[1])
		os.Exit(2)
	}
}

func loadWorld(cd *CheckDef) (*gosym.World, []string, error) {
	ov, err := gosym.HarnessOverlay(repoDir, filepath.Join(verifDir, "harness", "go"))
	if err != nil {
		return nil, nil, err
	}
	var spliced []string
	if cd.Splice {
		sp, names, err := spliceOverlay(repoDir)
		if err != nil {
			return nil, nil, fmt.Errorf("splice overlay: %v", err)
		}
		for k, v := range sp {
			ov[k] = v
		}
		spliced = names
	}
	tags := cd.Tags
	if tags == "" {
		tags = "dae_stub_ebpf,verif"
	}
	w, err := gosym.Load(&gosym.LoadConfig{RepoDir: repoDir, Patterns: cd.Pkgs, Tags: tags, Overlay: ov})
	return w, spliced, err
}

func resolveHarness(w *gosym.World, names []string) ([]*ssa.Function, error) {
	var fns []*ssa.Function
	for _, n := range names {
		i := strings.LastIndex(n, ":")
		pkg, fn := n[:i], n[i+1:]
		if !strings.Contains(pkg, ".") {
			pkg = "github.com/daeuniverse/dae/" + pkg
		}
		f := w.Func(pkg, fn)
		if f == nil {
			return nil, fmt.Errorf("harness %s not found", n)
		}
		fns = append(fns, f)
	}
	return fns, nil
}

func cmdRun(args []string) int {
	fs := flag.NewFlagSet("run", flag.ExitOnError)
	tier := fs.String("tier", envOr("VERIF_TIER", "quick"), "quick|thorough")
	only := fs.String("only", "", "run only harnesses whose name contains this")
	workers := fs.Int("workers", runtime.NumCPU(), "worker count")
	verbose := fs.Bool("verbose", false, "")
	noEvidence := fs.Bool("no-evidence", false, "")
	if len(args) < 1 {
		fmt.Fprintln(os.Stderr, "usage: vcheck run <ID> ...")
		return 2
	}
	id := args[0]
	fs.Parse(args[1:])
	cd := checks[id]
	if cd == nil {
		fmt.Fprintln(os.Stderr, "unknown check", id)
		return 2
	}
	seed, _ := strconv.Atoi(envOr("VERIF_SEED", "0"))
	t0 := time.Now()
	w, spliced, err := loadWorld(cd)
	if err != nil {
		fmt.Fprintf(os.Stderr, "INCONCLUSIVE property=%s load failed: %v\n", id, err)
		return 3
	}
	names := cd.Harness
	if *tier == "thorough" && len(cd.Thorough) > 0 {
		names = append(append([]string(nil), cd.Harness...), cd.Thorough...)
	}
	if *only != "" {
		var f []string
		for _, n := range names {
			if strings.Contains(n, *only) {
				f = append(f, n)
			}
		}
		names = f
	}
	fns, err := resolveHarness(w, names)
	if err != nil {
		fmt.Fprintf(os.Stderr, "INCONCLUSIVE property=%s %v\n", id, err)
		return 3
	}
	w.Thorough = *tier == "thorough"
	cfg := gosym.Config{MaxIter: cd.MaxIter, QueryMs: 4000, FallbackMs: 30000, Stubs: cd.Stubs, PanicIsViolation: true, NoMergeFns: cd.NoMergeFns}
	if w.Thorough {
		cfg.QueryMs, cfg.FallbackMs = 10000, 120000
	}
	if cd.QueryMs > 0 {
		cfg.QueryMs = cd.QueryMs
	}
	if fx := os.Getenv("VERIF_FIX"); fx != "" {
		cfg.Fixed = map[string]uint64{}
		for _, kv := range strings.Split(fx, ",") {
			if i := strings.LastIndex(kv, "="); i > 0 {
				v, _ := strconv.ParseUint(kv[i+1:], 10, 64)
				cfg.Fixed[kv[:i]] = v
			}
		}
	}
	cfg.NoMerge = os.Getenv("VERIF_NOMERGE") != ""
	budget := cd.QuickBudget
	if w.Thorough {
		budget = cd.ThoroughBudget
	}
	if budget == 0 {
		budget = 10 * time.Minute
	}
	cfg.Deadline = time.Now().Add(budget)
	total, by, err := gosym.Explore(w, fns, cfg, *workers)
	if err != nil {
		fmt.Fprintf(os.Stderr, "INCONCLUSIVE property=%s engine: %v\n", id, err)
		return 3
	}
	// control-flow-graph queries over real functions (data abstracted)
	var cfgResults []*cfgResult
	if *only == "" || strings.Contains("cfg", *only) {
		for _, ck := range cd.CFG {
			r := runCFGCheck(w, ck)
			cfgResults = append(cfgResults, r)
			key := "cfg/" + ck.Name
			ob := &gosym.Obligation{Name: key, Site: r.Func}
			total.Obligations[key] = ob
			total.Queries += r.Queries
			total.SolverTime += r.Solver
			switch {
			case r.Err != "":
				total.Unsupported["cfg check "+ck.Name+": "+r.Err]++
			case r.Holds:
				ob.Discharged++
			default:
				ob.Violated++
			}
		}
	}
	wall := time.Since(t0)

	// known findings and replay of violations
	kf := loadKnownFindings(id)
	var newViol, knownHit []*gosym.Violation
	os.MkdirAll(filepath.Join(verifDir, "replays", id), 0o755)
	seen := map[string]bool{}
	for _, v := range total.Violations {
		key := v.Harness + "/" + v.Name
		if k := kf.match(v); k != nil {
			if !seen["K"+k.ID] {
				seen["K"+k.ID] = true
				fmt.Printf("KNOWN-FINDING: property=%s %s\n", id, k.What)
			}
			knownHit = append(knownHit, v)
			continue
		}
		if seen[key] {
			continue
		}
		seen[key] = true
		newViol = append(newViol, v)
	}
	confirmed := 0
	for i, v := range newViol {
		path := filepath.Join(verifDir, "replays", id, fmt.Sprintf("%s-%s-%d.json", v.Harness, sanitize(v.Name), i))
		writeReplay(path, id, v)
		ok, how := confirmReplay(w, cd, v, path)
		if ok {
			confirmed++
			fmt.Printf("VIOLATION property=%s replay=%s\n", id, path)
			fmt.Printf("  harness=%s obligation=%s kind=%s %s\n  site=%s\n  confirmed: %s\n", v.Harness, v.Name, v.Kind, v.Msg, v.Site, how)
		} else {
			fmt.Printf("UNCONFIRMED property=%s harness=%s obligation=%s: solver model did not reproduce (%s) - encoder problem, counted as inconclusive\n", id, v.Harness, v.Name, how)
			total.Unsupported["unconfirmed counterexample "+v.Harness+"/"+v.Name]++
		}
	}

	for i, r := range cfgResults {
		if r.Err != "" || r.Holds {
			continue
		}
		path := filepath.Join(verifDir, "replays", id, fmt.Sprintf("cfg-%d.json", i))
		b, _ := json.MarshalIndent(map[string]interface{}{"property": id, "kind": "cfg-walk", "obligation": r.Name, "function": r.Func,
			"releases_on_walk": r.Releases, "walk": r.Walk}, "", " ")
		os.WriteFile(path, b, 0o644)
		confirmed++
		fmt.Printf("VIOLATION property=%s replay=%s\n", id, path)
		fmt.Printf("  cfg obligation=%s\n  function=%s\n  a walk through one loop iteration with %d release calls (re-walked against the real control-flow graph):\n", r.Name, r.Func, r.Releases)
		for _, l := range r.Walk {
			if strings.Contains(l, "release") || strings.Contains(l, "if.") || true {
				fmt.Printf("    %s\n", l)
			}
		}
	}
	if *verbose {
		for _, r := range cfgResults {
			fmt.Printf("  cfg %q: func=%s blocks=%d edges=%d steps=%d holds=%v err=%q solver=%.1fs\n", r.Name, r.Func, r.Blocks, r.Edges, r.Steps, r.Holds, r.Err, r.Solver.Seconds())
		}
	}
	inconclusive := len(total.Unsupported) > 0 || total.SolverUnknown > 0 || total.UnwindFail > 0 || total.LimitHit
	// vacuity: every harness must have completed at least one path and every declared obligation reached
	var vac []string
	for _, fn := range fns {
		hs := by[fn.Name()]
		if hs == nil || hs.PathsDone == 0 && len(hs.Violations) == 0 {
			vac = append(vac, fn.Name()+": no path completed")
		}
	}
	declared := declaredObligations(fns)
	for _, d := range declared {
		if !w.Thorough && strings.Contains(d, "/T:") {
			continue // obligation only reachable at the thorough tier's bound
		}
		if total.Obligations[d] == nil {
			vac = append(vac, d+": obligation never reached")
		}
	}
	if len(vac) > 0 {
		inconclusive = true
	}
	if !*noEvidence && *only == "" {
		writeEvidence(id, *tier, seed, cd, w, total, by, wall, spliced, vac, len(newViol), knownHit, declared)
	}
	if *verbose || inconclusive {
		printSummary(total, by, vac)
	}
	fmt.Printf("property=%s tier=%s harnesses=%d paths=%d done=%d obligations=%d queries=%d solver=%.1fs fallback(cvc5 bv-as-int)=%d/%.1fs exec=%.1fs merges=%d wall=%.1fs\n",
		id, *tier, len(fns), total.Paths, total.PathsDone, countDischarged(total), total.Queries, total.SolverTime.Seconds(), total.Fallbacks, total.FallbackTime.Seconds(), total.PathWall.Seconds(), total.Merges, wall.Seconds())
	if confirmed > 0 {
		return 1
	}
	if inconclusive {
		// Two kinds. A gap in the machinery (an instruction the executor cannot encode, a loop past
		// its unwinding bound, an obligation that no completed path reaches) makes the run
		// meaningless for the property: exit 3. Running out of time - the exploration budget or a
		// solver limit on a loaded machine - only means less was explored than the registered bound:
		// the property held on everything explored, the shortfall is stated here and in the
		// evidence file ("complete": false), and the exit code stays 0.
		hard := len(total.Unsupported) > 0 || total.UnwindFail > 0 || (len(vac) > 0 && !total.LimitHit && total.SolverUnknown == 0)
		if hard {
			fmt.Printf("INCONCLUSIVE property=%s (see summary above)\n", id)
			return 3
		}
		fmt.Printf("INCOMPLETE property=%s tier=%s explored less than the registered bound: paths_started=%d paths_completed=%d solver_unknown=%d budget_exhausted=%v (no violation among what was explored)\n",
			id, *tier, total.Paths, total.PathsDone, total.SolverUnknown, total.LimitHit)
		return 0
	}
	return 0
}

func sanitize(s string) string {
	var sb strings.Builder
	for _, r := range s {
		if r >= 'a' && r <= 'z' || r >= 'A' && r <= 'Z' || r >= '0' && r <= '9' || r == '_' || r == '-' {
			sb.WriteRune(r)
		} else {
			sb.WriteByte('_')
		}
	}
	return sb.String()
}

func countDischarged(s *gosym.Stats) int {
	n := 0
	for _, o := range s.Obligations {
		n += o.Discharged
	}
	return n
}

func printSummary(total *gosym.Stats, by map[string]*gosym.Stats, vac []string) {
	var hs []string
	for h := range by {
		hs = append(hs, h)
	}
	sort.Strings(hs)
	for _, h := range hs {
		s := by[h]
		fmt.Printf("  %-44s paths=%d done=%d infeasible=%d panics=%d queries=%d solver=%.1fs\n", h, s.Paths, s.PathsDone, s.Infeasible, s.PanicPaths, s.Queries, s.SolverTime.Seconds())
	}
	var os_ []string
	for k := range total.Obligations {
		os_ = append(os_, k)
	}
	sort.Strings(os_)
	for _, k := range os_ {
		o := total.Obligations[k]
		fmt.Printf("  obligation %-50s discharged=%d trivial=%d violated=%d unknown=%d\n", k, o.Discharged, o.Trivial, o.Violated, o.Unknown)
	}
	for k, n := range total.MergeAborts {
		fmt.Printf("  merge abort x%d: %s\n", n, k)
	}
	for k, n := range total.Unsupported {
		fmt.Printf("  UNSUPPORTED x%d: %s\n", n, k)
	}
	if total.SolverUnknown > 0 {
		fmt.Printf("  solver unknown: %d\n", total.SolverUnknown)
	}
	if total.LimitHit {
		fmt.Printf("  LIMIT: path or time budget exhausted\n")
	}
	for _, v := range vac {
		fmt.Printf("  VACUITY: %s\n", v)
	}
}

// declaredObligations scans harness SSA for vs.Assert calls with constant names.
func declaredObligations(fns []*ssa.Function) []string {
	var out []string
	seen := map[string]bool{}
	for _, fn := range fns {
		visited := map[*ssa.Function]bool{}
		var walk func(f *ssa.Function)
		walk = func(f *ssa.Function) {
			if visited[f] || f.Blocks == nil {
				return
			}
			visited[f] = true
			for _, b := range f.Blocks {
				for _, in := range b.Instrs {
					call, ok := in.(ssa.CallInstruction)
					if !ok {
						continue
					}
					callee := call.Common().StaticCallee()
					if callee == nil {
						continue
					}
					if callee.Pkg != nil && strings.HasSuffix(callee.Pkg.Pkg.Path(), "/zz_vs") {
						if callee.Name() == "Assert" || callee.Name() == "Fail" {
							if c, ok := call.Common().Args[0].(*ssa.Const); ok {
								k := fn.Name() + "/" + strings.Trim(c.Value.ExactString(), "\"")
								if !seen[k] && callee.Name() == "Assert" {
									seen[k] = true
									out = append(out, k)
								}
							}
						}
						continue
					}
					// follow helpers defined in harness files only
					if callee.Pkg == fn.Pkg && strings.HasPrefix(filepath.Base(callee.Prog.Fset.Position(callee.Pos()).Filename), "zz_verif") {
						walk(callee)
					}
				}
			}
			for _, an := range f.AnonFuncs {
				walk(an)
			}
		}
		walk(fn)
	}
	sort.Strings(out)
	return out
}

// ---------- replay ----------

type replayDoc struct {
	Property string            `json:"property"`
	Harness  string            `json:"harness"`
	Name     string            `json:"obligation"`
	Kind     string            `json:"kind"`
	Site     string            `json:"site"`
	Msg      string            `json:"msg,omitempty"`
	Inputs   map[string]uint64 `json:"inputs"`
	Notes    []string          `json:"notes,omitempty"`
}

func writeReplay(path, id string, v *gosym.Violation) {
	d := replayDoc{Property: id, Harness: v.Harness, Name: v.Name, Kind: v.Kind, Site: v.Site, Msg: v.Msg, Inputs: v.Inputs, Notes: v.Notes}
	b, _ := json.MarshalIndent(d, "", " ")
	os.WriteFile(path, b, 0o644)
}

// confirmReplay re-executes the real SSA with every input fixed to the model's value
// and then, where possible, runs the harness natively under go test.
func confirmReplay(w *gosym.World, cd *CheckDef, v *gosym.Violation, path string) (bool, string) {
	var fn *ssa.Function
	for _, n := range append(append([]string(nil), cd.Harness...), cd.Thorough...) {
		if strings.HasSuffix(n, ":"+v.Harness) {
			fns, err := resolveHarness(w, []string{n})
			if err == nil {
				fn = fns[0]
			}
		}
	}
	if fn == nil {
		return false, "harness not found"
	}
	cfg := gosym.Config{MaxIter: cd.MaxIter, QueryMs: 10000, Stubs: cd.Stubs, PanicIsViolation: true, Inputs: v.Inputs, NoMergeFns: cd.NoMergeFns}
	if cfg.Inputs == nil {
		cfg.Inputs = map[string]uint64{}
	}
	st, _, err := gosym.Explore(w, []*ssa.Function{fn}, cfg, 1)
	if err != nil {
		return false, err.Error()
	}
	engineOK := false
	for _, cv := range st.Violations {
		if cv.Name == v.Name {
			engineOK = true
		}
	}
	if !engineOK {
		return false, fmt.Sprintf("concrete re-execution: no violation (paths=%d unsupported=%v samples=%v)", st.Paths, st.Unsupported, st.Samples)
	}
	how := "concrete re-execution of the real SSA reproduces"
	if os.Getenv("VERIF_NO_NATIVE") == "" {
		out, nerr := nativeReplay(cd, fn, path)
		switch {
		case strings.Contains(out, "VS-REPLAY violated "+v.Name), v.Kind == "panic" && strings.Contains(out, "VS-REPLAY panic"):
			how += "; native go test reproduces (" + lastLine(out, "VS-REPLAY") + ")"
		case strings.Contains(out, "VS-REPLAY unavailable"):
			how += "; native-replay=unavailable (" + lastLine(out, "VS-REPLAY") + ")"
		case strings.Contains(out, "VS-REPLAY"):
			return false, "native replay disagrees: " + lastLine(out, "VS-REPLAY")
		default:
			how += fmt.Sprintf("; native-replay=unavailable (go test: %v)", nerr)
		}
	}
	return true, how
}

func lastLine(out, prefix string) string {
	for _, l := range strings.Split(out, "\n") {
		if strings.HasPrefix(l, prefix) {
			return l
		}
	}
	return ""
}

func cmdReplay(args []string) int {
	if len(args) < 2 {
		fmt.Fprintln(os.Stderr, "usage: vcheck replay <ID> <file>")
		return 2
	}
	id, path := args[0], args[1]
	cd := checks[id]
	if cd == nil {
		return 2
	}
	b, err := os.ReadFile(path)
	if err != nil {
		fmt.Fprintln(os.Stderr, err)
		return 2
	}
	var d replayDoc
	if err := json.Unmarshal(b, &d); err != nil {
		fmt.Fprintln(os.Stderr, err)
		return 2
	}
	w, _, err := loadWorld(cd)
	if err != nil {
		fmt.Fprintln(os.Stderr, err)
		return 3
	}
	if d.Kind == "cfg-walk" {
		// a control-flow-graph witness: the query is re-run on the current tree
		for _, ck := range cd.CFG {
			r := runCFGCheck(w, ck)
			if r.Err == "" && !r.Holds {
				fmt.Printf("VIOLATION property=%s replay=%s\n  cfg obligation %q: a walk with %d release calls exists in %s\n", id, path, r.Name, r.Releases, r.Func)
				for _, l := range r.Walk {
					fmt.Printf("    %s\n", l)
				}
				return 1
			}
		}
		fmt.Println("replay does not reproduce: the control-flow-graph queries hold on the current tree")
		return 0
	}
	v := &gosym.Violation{Harness: d.Harness, Name: d.Name, Kind: d.Kind, Inputs: d.Inputs}
	ok, how := confirmReplay(w, cd, v, path)
	if ok {
		fmt.Printf("VIOLATION property=%s replay=%s\n  %s\n", id, path, how)
		return 1
	}
	fmt.Printf("replay does not reproduce: %s\n", how)
	return 0
}
