package main

import (
	"bytes"
	"fmt"
	"go/ast"
	"go/parser"
	"go/printer"
	"go/token"
	"os"
	"path/filepath"
	"strconv"
	"strings"
)

// Functions whose stub-build bodies are empty and whose real bodies live in
// control/bpf_utils.go (which cannot be compiled here because it needs bpf2go output).
var splicedFuncs = map[string]bool{"Encode": true, "ParsePortRange": true, "cidrToBpfLpmKey": true}

// spliceOverlay cuts, by AST and verbatim, the real encoder functions out of bpf_utils.go
// into a virtual file and removes the same-named stubs from a virtual copy of bpf_stub.go.
func spliceOverlay(repo string) (map[string][]byte, []string, error) {
	fset := token.NewFileSet()
	stubPath := filepath.Join(repo, "control", "bpf_stub.go")
	realPath := filepath.Join(repo, "control", "bpf_utils.go")
	stub, err := parser.ParseFile(fset, stubPath, nil, parser.ParseComments)
	if err != nil {
		return nil, nil, err
	}
	realF, err := parser.ParseFile(fset, realPath, nil, parser.ParseComments)
	if err != nil {
		return nil, nil, err
	}
	removed := map[string]bool{}
	var keep []ast.Decl
	for _, d := range stub.Decls {
		if fd, ok := d.(*ast.FuncDecl); ok && splicedFuncs[fd.Name.Name] {
			removed[fd.Name.Name] = true
			continue
		}
		keep = append(keep, d)
	}
	stub.Decls = keep
	stub.Comments = nil
	var sb bytes.Buffer
	sb.WriteString("//go:build dae_stub_ebpf\n\n")
	if err := printer.Fprint(&sb, fset, stub); err != nil {
		return nil, nil, err
	}
	stubOut := unusedImportsFixed(sb.Bytes())
	// real functions
	imports := map[string]string{} // local name -> path
	for _, im := range realF.Imports {
		p, _ := strconv.Unquote(im.Path.Value)
		name := filepath.Base(p)
		if im.Name != nil {
			name = im.Name.Name
		}
		imports[name] = p
	}
	var funcs []*ast.FuncDecl
	var names []string
	used := map[string]bool{}
	for _, d := range realF.Decls {
		fd, ok := d.(*ast.FuncDecl)
		if !ok || !splicedFuncs[fd.Name.Name] {
			continue
		}
		funcs = append(funcs, fd)
		names = append(names, "control."+fd.Name.Name)
		ast.Inspect(fd, func(n ast.Node) bool {
			if se, ok := n.(*ast.SelectorExpr); ok {
				if id, ok := se.X.(*ast.Ident); ok {
					if _, isImp := imports[id.Name]; isImp && id.Obj == nil {
						used[id.Name] = true
					}
				}
			}
			return true
		})
	}
	if len(funcs) != len(splicedFuncs) || len(removed) != len(splicedFuncs) {
		return nil, nil, fmt.Errorf("expected to splice %d functions, found %d real / %d stubs", len(splicedFuncs), len(funcs), len(removed))
	}
	var rb bytes.Buffer
	rb.WriteString("//go:build dae_stub_ebpf\n\n// Code cut verbatim from control/bpf_utils.go by vcheck (splice overlay).\n\npackage control\n\nimport (\n")
	for n := range used {
		if filepath.Base(imports[n]) == n {
			fmt.Fprintf(&rb, "\t%q\n", imports[n])
		} else {
			fmt.Fprintf(&rb, "\t%s %q\n", n, imports[n])
		}
	}
	rb.WriteString(")\n\n")
	for _, fd := range funcs {
		fd.Doc = nil
		if err := printer.Fprint(&rb, fset, fd); err != nil {
			return nil, nil, err
		}
		rb.WriteString("\n\n")
	}
	out := map[string][]byte{
		stubPath: stubOut,
		filepath.Join(repo, "control", "zz_verif_splice_real.go"): rb.Bytes(),
	}
	return out, names, nil
}

// unusedImportsFixed blanks imports that became unused after removing the stubs.
func unusedImportsFixed(src []byte) []byte {
	fset := token.NewFileSet()
	f, err := parser.ParseFile(fset, "x.go", src, parser.ParseComments)
	if err != nil {
		return src
	}
	usedNames := map[string]bool{}
	ast.Inspect(f, func(n ast.Node) bool {
		if se, ok := n.(*ast.SelectorExpr); ok {
			if id, ok := se.X.(*ast.Ident); ok {
				usedNames[id.Name] = true
			}
		}
		return true
	})
	changed := false
	for _, im := range f.Imports {
		p, _ := strconv.Unquote(im.Path.Value)
		name := filepath.Base(p)
		if im.Name != nil {
			name = im.Name.Name
		}
		if name == "_" || name == "." {
			continue
		}
		if !usedNames[name] {
			im.Name = ast.NewIdent("_")
			changed = true
		}
	}
	if !changed {
		return src
	}
	var sb bytes.Buffer
	printer.Fprint(&sb, fset, f)
	out := sb.String()
	if !strings.HasPrefix(out, "//go:build") {
		out = "//go:build dae_stub_ebpf\n\n" + out
	}
	return []byte(out)
}

var _ = os.ReadFile
