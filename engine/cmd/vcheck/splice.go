package main

import "fmt"

// spliceOverlay: filled in by splice_impl.go
var spliceOverlay = func(repo string) (map[string][]byte, []string, error) {
	return nil, nil, fmt.Errorf("splice overlay not implemented")
}
