package main

import (
	"encoding/json"
	"fmt"
	"os"
	"path/filepath"
	"sort"
	"time"

	"verif/engine/gosym"
)

func sortStrings(s []string) { sort.Strings(s) }

func writeEvidence(id, tier string, seed int, cd *CheckDef, w *gosym.World, total *gosym.Stats, by map[string]*gosym.Stats,
	wall time.Duration, spliced []string, vac []string, nviol int, known []*gosym.Violation, declared []string) {
	type fnRow struct {
		Name  string `json:"name"`
		Calls int    `json:"calls"`
	}
	var fnsRepo, fnsOther []fnRow
	for name, n := range total.Funcs {
		if isRepoFunc(name) {
			fnsRepo = append(fnsRepo, fnRow{name, n})
		} else {
			fnsOther = append(fnsOther, fnRow{name, n})
		}
	}
	sort.Slice(fnsRepo, func(i, j int) bool { return fnsRepo[i].Name < fnsRepo[j].Name })
	obl, dis, nontriv := 0, 0, 0
	type oRow struct {
		Name       string `json:"name"`
		Discharged int    `json:"discharged"`
		Trivial    int    `json:"folded_to_true"`
		Violated   int    `json:"violated"`
		Unknown    int    `json:"unknown"`
	}
	var orows []oRow
	for _, o := range total.Obligations {
		n := o.Discharged + o.Violated + o.Unknown
		obl += n
		dis += o.Discharged
		nontriv += o.Discharged - o.Trivial
		orows = append(orows, oRow{o.Name, o.Discharged, o.Trivial, o.Violated, o.Unknown})
	}
	sort.Slice(orows, func(i, j int) bool { return orows[i].Name < orows[j].Name })
	hrows := map[string]interface{}{}
	for h, s := range by {
		hrows[h] = map[string]interface{}{"paths": s.Paths, "completed": s.PathsDone, "infeasible_pruned": s.Infeasible,
			"queries": s.Queries, "solver_s": round(s.SolverTime.Seconds())}
	}
	var stubs []string
	for k, n := range total.Stubbed {
		stubs = append(stubs, fmt.Sprintf("%s (x%d)", k, n))
	}
	sort.Strings(stubs)
	samples := make([]interface{}, 0, len(total.Samples))
	for _, s := range total.Samples {
		samples = append(samples, s)
	}
	if len(samples) == 0 {
		samples = append(samples, map[string]interface{}{"note": "no symbolic inputs on completed paths"})
	}
	var unsup []string
	for k, n := range total.Unsupported {
		unsup = append(unsup, fmt.Sprintf("%s (x%d)", k, n))
	}
	var knownIDs []string
	for _, k := range known {
		knownIDs = append(knownIDs, k.Harness+"/"+k.Name)
	}
	cov := map[string]interface{}{
		"explanation":                   cd.Explanation + " Deciding step: every obligation (vs.Assert) reached on every feasible path of the symbolically executed real SSA is sent negated to z3; unsat = holds for all inputs within the bound, sat = counterexample that is re-executed concretely (engine and native go test) before being reported.",
		"evaluations":                   total.Paths,
		"distinct_nontrivial":           nontriv,
		"rule":                          "a case is one (feasible path of the real code under a harness, obligation) pair; paths are distinct decision trails of the go/ssa symbolic executor; non-trivial = the obligation did not constant-fold and was discharged by a solver query over all inputs of that path",
		"samples":                       samples,
		"obligations":                   obl,
		"discharged":                    dis,
		"obligation_table":              orows,
		"declared_obligations":          declared,
		"harnesses":                     hrows,
		"functions_encoded_repo":        fnsRepo,
		"functions_encoded_other_count": len(fnsOther),
		"ssa_instructions_executed":     total.Instrs,
		"bounds":                        cd.Bounds[tier],
		"outside_the_claim":             cd.Outside,
		"stubs_hit":                     stubs,
		"spliced_real_encoders":         spliced,
		"solver":                        "z3 4.8.12 (-in, incremental push/pop, global declarations)",
		"queries":                       total.Queries,
		"solver_time_s":                 round(total.SolverTime.Seconds()),
		"solver_unknown":                total.SolverUnknown,
		"fallback_solver":               "cvc5 1.0.3 --incremental --solve-bv-as-int=sum (asked only when z3 answers unknown)",
		"fallback_queries":              total.Fallbacks,
		"solver_watchdog_restarts":      total.SolverKills,
		"schedule_decisions":            total.SchedDecisions,
		"schedule_note":                 scheduleNote(total.SchedDecisions),
		"fallback_time_s":               round(total.FallbackTime.Seconds()),
		"state_merges":                  total.Merges,
		"unwinding_failures":            total.UnwindFail,
		"unsupported":                   unsup,
		"vacuity_failures":              vac,
		"assume_calls":                  total.Assumes,
		"paths_completed":               total.PathsDone,
		"complete":                      !(total.LimitHit || total.SolverUnknown > 0 || len(total.Unsupported) > 0 || total.UnwindFail > 0 || len(vac) > 0),
		"budget_exhausted":              total.LimitHit,
		"paths_pruned_infeasible":       total.Infeasible,
		"known_findings_hit":            knownIDs,
		"packages_loaded":               w.NumPkgs,
		"load_time_s":                   round(w.LoadTime.Seconds()),
		"exhaustive":                    false,
		"checker_cmd":                   "z3 -in",
		"trusted_base":                  []string{"go/ssa + go/types (x/tools v0.50.0, go1.26.8)", "verif/engine/gosym executor and smt printer", "z3 4.8.12", "harness specifications and listed stubs"},
	}
	ev := map[string]interface{}{
		"property_id": id, "tier": tier, "seed": seed, "level": cd.Level, "coverage": cov,
		"assumptions": cd.Assumptions, "wall_s": round(wall.Seconds()), "violations": nviol,
	}
	b, _ := json.MarshalIndent(ev, "", " ")
	os.MkdirAll(filepath.Join(verifDir, "evidence"), 0o755)
	os.WriteFile(filepath.Join(verifDir, "evidence", id+".json"), b, 0o644)
}

func round(f float64) float64 { return float64(int(f*100)) / 100 }

func isRepoFunc(name string) bool {
	return containsStr(name, "github.com/daeuniverse/dae") && !containsStr(name, "zz_vs") && !containsStr(name, "Verif_") && !containsStr(name, "verif")
}

func containsStr(s, sub string) bool {
	return len(sub) <= len(s) && (func() bool {
		for i := 0; i+len(sub) <= len(s); i++ {
			if s[i:i+len(sub)] == sub {
				return true
			}
		}
		return false
	})()
}

func scheduleNote(n int) string {
	if n == 0 {
		return "no goroutine schedules are explored by this check"
	}
	return "goroutine scheduling decisions (which runnable thread continues, whether to preempt at a synchronisation operation, which ready select case is taken, whether an armed timer has fired) are symbolic inputs sched#n, each constrained only to the number of options at that point, so every value is feasible by construction and each is explored on its own path with sched#n = value in the path condition. Where the harness data is concrete, obligations on a given schedule fold to constants (counted as trivial): the all-schedules-within-the-bound claim rests on covering every value of every schedule variable; a counterexample's model carries them and the replay file pins them"
}
